#!/usr/bin/env python3
"""Regenerates MANIFEST.json from spec.py + manifest_text.py (so the manifest is always in step with the checks)."""
import json, os, sys
sys.path.insert(0, os.path.dirname(os.path.abspath(__file__)))
import spec, manifest_text as mt

ALL = ["C%02d" % i for i in range(1, 21)]
checks = []
for pid in ALL:
    if pid not in spec.PROPS or pid in mt.NOT_APPLICABLE:
        continue
    t = mt.TEXT[pid]
    checks.append({
        "property_id": pid,
        "quick_cmd": "./vmverif check %s --tier quick" % pid,
        "thorough_cmd": "./vmverif check %s --tier thorough" % pid,
        "evidence_file": "/verif/evidence/%s.json" % pid,
        "replay_cmd_template": "./vmverif replay {path}",
        "engine": "kani-cbmc",
        "level_claimed": {"category": "model_checking", "text": t["level"], "design_ref": t["design_ref"]},
        "level_note": t["note"],
        "technique": t["technique"],
    })
na = [{"property_id": pid, "reason": mt.NOT_APPLICABLE[pid]} for pid in ALL if pid in mt.NOT_APPLICABLE]
na += [{"property_id": pid, "reason": "check not built yet in this session (planned, see DESIGN.md §4)"}
       for pid in ALL if pid not in spec.PROPS and pid not in mt.NOT_APPLICABLE]
m = {
    "version": 1,
    "setup_cmd": "./vmverif setup",
    "hooks": mt.HOOKS,
    "engines": [{
        "name": "kani-cbmc",
        "path": "/verif/vmverif",
        "serves_properties": [c["property_id"] for c in checks],
        "kind_free_text": "bounded model checking of the compiled crate: Kani 0.68 proof harnesses (harness/std, harness/xen, path dependency on /repo) -> CBMC 6.11 -> CaDiCaL; runner schedules queries, parses Kani's JSON export, replays counterexamples",
    }],
    "checks": checks,
    "notes": mt.NOTES,
    "not_applicable": na,
}
json.dump(m, open(os.path.join(os.path.dirname(os.path.abspath(__file__)), "MANIFEST.json"), "w"), indent=1)
print("MANIFEST.json: %d checks, %d not applicable" % (len(checks), len(na)))
