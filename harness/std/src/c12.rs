//! C12 - a mapping lives exactly as long as something can still reach it (standard build).
//! The `mmap`/`munmap` models (cffi.rs) keep a ghost table of live mappings; `munmap` of anything that is not exactly a
//! live mapping counts as BAD_MUNMAP.  (i) drop step with symbolic (address, size); (ii) short histories over two
//! owned regions, one drop order per query.
use crate::cffi::{self, *};
use crate::common::*;
use crate::stdstubs::*;
use std::sync::Arc;
use vm_memory::mmap::{MmapRegion, MmapRegionBuilder};
use vm_memory::{GuestAddress, GuestMemory, GuestMemoryMmap, GuestMemoryRegion, GuestRegionMmap};

fn ghost() -> (usize, usize, usize, usize) {
    // SAFETY: single-threaded
    unsafe { (N_MMAP, N_MUNMAP, BAD_MUNMAP, live_count()) }
}
fn slot_live(i: usize) -> bool {
    unsafe { MAPS[i].live }
}
fn set_bases(a0: usize, a1: usize) {
    unsafe {
        NEXT_BASE[0] = a0;
        NEXT_BASE[1] = a1;
    }
}

/// (i) an owned anonymous region is unmapped exactly once, with its own (address, size), when dropped
#[kani::proof]
fn drop_step_owned() {
    cffi::link();
    let addr: usize = kani::any();
    let size: usize = kani::any();
    kani::assume(addr != usize::MAX); // MAP_FAILED
    set_bases(addr, 0);
    let via_new: bool = kani::any();
    let r = if via_new {
        MmapRegion::<()>::new(size)
    } else {
        let prot: i32 = kani::any();
        let flags: i32 = kani::any();
        kani::assume(flags & libc::MAP_FIXED == 0);
        MmapRegionBuilder::<()>::new(size).with_mmap_prot(prot).with_mmap_flags(flags).build()
    };
    match r {
        Ok(reg) => {
            assert!(ghost() == (1, 0, 0, 1));
            assert!(reg.owned() && reg.as_ptr() as usize == addr && reg.size() == size);
            drop(reg);
            assert!(ghost() == (1, 1, 0, 0)); // one munmap, of exactly (addr, size): otherwise BAD_MUNMAP
        }
        Err(e) => {
            leak(e);
            assert!(false); // the model's mmap succeeds here
        }
    }
    kani::cover!(size == 0);
    kani::cover!(size == usize::MAX && addr == 0);
}

/// a region wrapped around an externally provided mapping is never unmapped by the library
#[kani::proof]
fn drop_step_raw() {
    cffi::link();
    let addr: usize = kani::any();
    let size: usize = kani::any();
    kani::assume(addr % cffi::PAGE == 0);
    let via_build_raw: bool = kani::any();
    let prot: i32 = kani::any();
    let flags: i32 = kani::any();
    // SAFETY: the pointer is never dereferenced
    let r = unsafe {
        if via_build_raw {
            MmapRegion::<()>::build_raw(addr as *mut u8, size, prot, flags)
        } else {
            MmapRegionBuilder::<()>::new(size).with_raw_mmap_pointer(addr as *mut u8).build()
        }
    };
    match r {
        Ok(reg) => {
            assert!(!reg.owned() && reg.as_ptr() as usize == addr);
            drop(reg);
            assert!(ghost() == (0, 0, 0, 0));
        }
        Err(e) => {
            leak(e);
            assert!(false);
        }
    }
    kani::cover!(addr == 0);
    kani::cover!(addr != 0 && via_build_raw);
}

/// two owned regions built through the public constructor, at symbolic host addresses with symbolic sizes
macro_rules! two_regions {
    ($r0:ident, $r1:ident) => {
        cffi::link();
        let (h0, h1): (usize, usize) = (kani::any(), kani::any());
        kani::assume(h0 != usize::MAX && h1 != usize::MAX && h0 != h1);
        set_bases(h0, h1);
        let (s0, s1): (usize, usize) = (kani::any(), kani::any());
        kani::assume(s0 >= 1 && s1 >= 1 && s0 <= 0x1000 && s1 <= 0x1000);
        let $r0 = match GuestRegionMmap::<()>::from_range(GuestAddress(0x1000), s0, None) {
            Ok(r) => r,
            Err(e) => {
                leak(e);
                assert!(false);
                return;
            }
        };
        let $r1 = match GuestRegionMmap::<()>::from_range(GuestAddress(0x10000), s1, None) {
            Ok(r) => r,
            Err(e) => {
                leak(e);
                assert!(false);
                return;
            }
        };
        assert!(ghost() == (2, 0, 0, 2));
    };
}

/// build -> clone map -> drop in either order
#[kani::proof]
fn history_clone() {
    two_regions!(r0, r1);
    let m0 = match GuestMemoryMmap::from_regions(vec![r0, r1]) {
        Ok(m) => m,
        Err(e) => {
            leak(e);
            assert!(false);
            return;
        }
    };
    let m1 = m0.clone();
    let first: bool = kani::any();
    if first {
        drop(m0);
        assert!(ghost() == (2, 0, 0, 2)); // the clone still owns both
        assert!(m1.num_regions() == 2);
        drop(m1);
    } else {
        drop(m1);
        assert!(ghost() == (2, 0, 0, 2));
        drop(m0);
    }
    assert!(ghost() == (2, 2, 0, 0));
    kani::cover!(first);
    kani::cover!(!first);
}

/// build -> insert_region -> drop old/new in either order
fn history_insert_body<const OLD_FIRST: bool>() {
    two_regions!(r0, r1);
    let m0 = match GuestMemoryMmap::from_regions(vec![r0]) {
        Ok(m) => m,
        Err(e) => {
            leak(e);
            assert!(false);
            return;
        }
    };
    let m1 = match m0.insert_region(Arc::new(r1)) {
        Ok(m) => m,
        Err(e) => {
            leak(e);
            assert!(false);
            return;
        }
    };
    assert!(ghost() == (2, 0, 0, 2));
    if OLD_FIRST {
        drop(m0);
        assert!(ghost() == (2, 0, 0, 2)); // r0 is still reachable from the derived map
        assert!(m1.num_regions() == 2);
        drop(m1);
    } else {
        drop(m1);
        // r1 was only reachable from the derived map: unmapped now; r0 still mapped for the old map
        assert!(ghost() == (2, 1, 0, 1));
        assert!(slot_live(0) && !slot_live(1));
        assert!(m0.num_regions() == 1);
        drop(m0);
    }
    assert!(ghost() == (2, 2, 0, 0));
}
#[kani::proof]
#[kani::stub(alloc::slice::stable_sort, stable_sort_stub)]
fn history_insert_old_first() {
    history_insert_body::<true>()
}
#[kani::proof]
#[kani::stub(alloc::slice::stable_sort, stable_sort_stub)]
fn history_insert_new_first() {
    history_insert_body::<false>()
}

/// build -> remove_region -> (old map, new map, removed handle) dropped in every order
fn history_remove_body<const ORDER: u8>() {
    two_regions!(r0, r1);
    let m0 = match GuestMemoryMmap::from_regions(vec![r0, r1]) {
        Ok(m) => m,
        Err(e) => {
            leak(e);
            assert!(false);
            return;
        }
    };
    let s1 = match m0.find_region(GuestAddress(0x10000)) {
        Some(r) => r.len(),
        None => {
            assert!(false);
            return;
        }
    };
    let (m1, h) = match m0.remove_region(GuestAddress(0x10000), s1) {
        Ok(x) => x,
        Err(e) => {
            leak(e);
            assert!(false);
            return;
        }
    };
    assert!(ghost() == (2, 0, 0, 2));
    // reachability model: slot 0 (r0) <- m0, m1 ; slot 1 (r1) <- m0, h
    let (mut a_m0, mut a_m1, mut a_h) = (true, true, true);
    let mut m0 = Some(m0);
    let mut m1 = Some(m1);
    let mut h = Some(h);
    // ORDER enumerates the 6 permutations of (m0, m1, h)
    let perm: [u8; 3] = match ORDER {
        0 => [0, 1, 2],
        1 => [0, 2, 1],
        2 => [1, 0, 2],
        3 => [1, 2, 0],
        4 => [2, 0, 1],
        _ => [2, 1, 0],
    };
    let mut k = 0;
    while k < 3 {
        match perm[k] {
            0 => {
                drop(m0.take());
                a_m0 = false;
            }
            1 => {
                drop(m1.take());
                a_m1 = false;
            }
            _ => {
                drop(h.take());
                a_h = false;
            }
        }
        assert!(slot_live(0) == (a_m0 || a_m1));
        assert!(slot_live(1) == (a_m0 || a_h));
        let (_, _, bad, _) = ghost();
        assert!(bad == 0);
        k += 1;
    }
    assert!(ghost() == (2, 2, 0, 0));
}
macro_rules! rem {
    ($name:ident, $o:expr) => {
        #[kani::proof]
        #[kani::stub(alloc::vec::Vec::remove, vec_remove_stub)]
        fn $name() {
            history_remove_body::<{ $o }>()
        }
    };
}
rem!(history_remove_order0, 0);
rem!(history_remove_order1, 1);
rem!(history_remove_order2, 2);
rem!(history_remove_order3, 3);
rem!(history_remove_order4, 4);
rem!(history_remove_order5, 5);
