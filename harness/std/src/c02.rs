//! C02 - guest address queries answer exactly according to the set of mapped regions.
//!
//! The same query bodies run (a) on the real `GuestMemoryMmap` built from raw-pointer regions whose guest bases AND
//! sizes are symbolic 64-bit values (E6; one lookup per query), and (b) on the contract-level mock, i.e. "any other
//! implementation of the traits that relies on the provided default methods".  Oracle: interval-set model.
use crate::cffi::{self, PagePool};
use crate::common::*;
use crate::mock::{self, MockMem};
use crate::regn::{gkind, GK};
use std::sync::Arc;
use vm_memory::mmap::MmapRegionBuilder;
use vm_memory::{Address, GuestAddress, GuestMemory, GuestMemoryMmap, GuestMemoryRegion, GuestRegionMmap, MemoryRegionAddress};

pub struct Lay {
    pub n: usize,
    pub base: [u64; 3],
    pub size: [u64; 3],
    pub host: [*mut u8; 3],
}

impl Lay {
    pub fn owner(&self, a: u128) -> Option<usize> {
        let mut r = None;
        let mut i = 0;
        while i < 3 {
            if i < self.n && a >= self.base[i] as u128 && a < self.base[i] as u128 + self.size[i] as u128 {
                r = Some(i);
            }
            i += 1;
        }
        r
    }
    pub fn max_last(&self) -> u64 {
        let mut m = 0u64;
        let mut i = 0;
        while i < 3 {
            if i < self.n {
                let last = self.base[i] + (self.size[i] - 1);
                if last > m {
                    m = last;
                }
            }
            i += 1;
        }
        m
    }
    /// every byte of [a, a+len) mapped without interruption (len >= 1)
    pub fn range_mapped(&self, a: u64, len: usize) -> bool {
        let mut cur = a as u128;
        let end = a as u128 + len as u128;
        let mut ok = true;
        let mut done = false;
        let mut k = 0;
        while k < 3 {
            if ok && !done {
                match self.owner(cur) {
                    None => ok = false,
                    Some(i) => {
                        let rend = self.base[i] as u128 + self.size[i] as u128;
                        if rend >= end {
                            done = true;
                        } else {
                            cur = rend;
                        }
                    }
                }
            }
            k += 1;
        }
        ok && done
    }
}

/// real map: NR raw-pointer regions over one page-aligned pool, symbolic 64-bit bases and sizes (<= max_size)
pub fn one_region(host: *mut u8, max_size: u64) -> Option<(Arc<GuestRegionMmap<()>>, u64, u64)> {
    let base: u64 = kani::any();
    let size: u64 = kani::any();
    kani::assume(size >= 1 && size <= max_size);
    // SAFETY: the pointer is only dereferenced by harnesses that bound the size by the pool
    let r = unsafe { MmapRegionBuilder::<()>::new(size as usize).with_raw_mmap_pointer(host) }.build();
    let r = match r {
        Ok(r) => r,
        Err(e) => {
            leak(e);
            return None;
        }
    };
    match GuestRegionMmap::new(r, GuestAddress(base)) {
        Ok(g) => Some((Arc::new(g), base, size)),
        Err(e) => {
            leak(e);
            None
        }
    }
}

/// real map: NR raw-pointer regions over one page-aligned pool, symbolic 64-bit bases and sizes (<= max_size).
/// (The vector is built with `vec![..]` of the exact arity: a `with_capacity` + `push` loop made every later
/// operation on the map run CBMC out of memory.)
pub fn real_map<const NR: usize>(pool: &mut PagePool, max_size: u64) -> Option<(GuestMemoryMmap<()>, Lay)> {
    cffi::small_pages();
    cffi::link();
    let host = pool.0.as_mut_ptr();
    let mut lay = Lay { n: NR, base: [0; 3], size: [1; 3], host: [host; 3] };
    let v = if NR == 1 {
        let (a, b, s) = one_region(host, max_size)?;
        lay.base[0] = b;
        lay.size[0] = s;
        vec![a]
    } else if NR == 2 {
        let (a0, b0, s0) = one_region(host, max_size)?;
        let (a1, b1, s1) = one_region(host, max_size)?;
        lay.base[0] = b0;
        lay.size[0] = s0;
        lay.base[1] = b1;
        lay.size[1] = s1;
        vec![a0, a1]
    } else {
        let (a0, b0, s0) = one_region(host, max_size)?;
        let (a1, b1, s1) = one_region(host, max_size)?;
        let (a2, b2, s2) = one_region(host, max_size)?;
        lay.base = [b0, b1, b2];
        lay.size = [s0, s1, s2];
        vec![a0, a1, a2]
    };
    match GuestMemoryMmap::from_arc_regions(v) {
        Ok(m) => Some((m, lay)),
        Err(e) => {
            leak(e);
            None
        }
    }
}

pub fn mock_map<const NR: usize>(pool: &mut [u8; mock::POOL], max_size: u64) -> (MockMem, Lay) {
    let m = mock::any_layout_max(pool, NR, max_size);
    let mut lay = Lay { n: NR, base: [0; 3], size: [1; 3], host: [core::ptr::null_mut(); 3] };
    let mut i = 0;
    while i < 3 {
        if i < NR {
            lay.base[i] = m.regions[i].start;
            lay.size[i] = m.regions[i].len;
            lay.host[i] = m.regions[i].data;
        }
        i += 1;
    }
    (m, lay)
}

fn q_find<M: GuestMemory>(m: &M, l: &Lay) {
    let a: u64 = kani::any();
    let own = l.owner(a as u128);
    match (m.find_region(GuestAddress(a)), own) {
        (Some(r), Some(i)) => {
            assert!(r.start_addr().0 == l.base[i] && r.len() == l.size[i]);
            assert!(r.to_region_addr(GuestAddress(a)) == Some(MemoryRegionAddress(a - l.base[i])));
        }
        (None, None) => {}
        _ => assert!(false),
    }
    kani::cover!(own.is_some() && a == l.base[l.n - 1] + (l.size[l.n - 1] - 1));
    kani::cover!(own.is_none() && a > 0 && l.owner(a as u128 - 1).is_some());
    kani::cover!(own.is_none() && a < l.base[0]);
    kani::cover!(l.n < 2 || (l.base[0] + l.size[0] == l.base[1] && own == Some(1) && a == l.base[1]));
}

fn q_region_addr<M: GuestMemory>(m: &M, l: &Lay) {
    let a: u64 = kani::any();
    let own = l.owner(a as u128);
    match (m.to_region_addr(GuestAddress(a)), own) {
        (Some((r, off)), Some(i)) => assert!(r.start_addr().0 == l.base[i] && off.0 == a - l.base[i]),
        (None, None) => {}
        _ => assert!(false),
    }
    kani::cover!(own.is_some() && a > l.base[0]);
    kani::cover!(own.is_none());
}

fn q_in_range<M: GuestMemory>(m: &M, l: &Lay) {
    let a: u64 = kani::any();
    let own = l.owner(a as u128);
    let which: bool = kani::any();
    if which {
        assert!(m.address_in_range(GuestAddress(a)) == own.is_some());
    } else {
        assert!(m.check_address(GuestAddress(a)) == if own.is_some() { Some(GuestAddress(a)) } else { None });
    }
    kani::cover!(own.is_some());
    kani::cover!(own.is_none());
}

fn q_last<M: GuestMemory>(m: &M, l: &Lay) {
    assert!(m.num_regions() == l.n);
    assert!(m.last_addr() == GuestAddress(l.max_last()));
    kani::cover!(l.max_last() == u64::MAX - 1);
    kani::cover!(l.n > 1 || l.max_last() == 0);
}

fn q_host<M: GuestMemory>(m: &M, l: &Lay) {
    let a: u64 = kani::any();
    let own = l.owner(a as u128);
    let r = m.get_host_address(GuestAddress(a));
    match (&r, own) {
        (Ok(p), Some(i)) => assert!(*p == l.host[i].wrapping_add((a - l.base[i]) as usize)),
        (Err(_), None) => {}
        _ => assert!(false),
    }
    kani::cover!(own.is_some() && a > l.base[0]);
    kani::cover!(own.is_none());
    leak(r);
}

fn q_checked_offset<M: GuestMemory>(m: &M, l: &Lay) {
    let a: u64 = kani::any();
    let off: usize = kani::any();
    let exact = a as u128 + off as u128;
    let want = exact <= u64::MAX as u128 && l.owner(exact).is_some();
    match m.checked_offset(GuestAddress(a), off) {
        Some(x) => assert!(want && x.0 as u128 == exact),
        None => assert!(!want),
    }
    kani::cover!(want && off > 0);
    kani::cover!(!want && exact > u64::MAX as u128);
    kani::cover!(!want && exact <= u64::MAX as u128);
}

fn q_check_range<M: GuestMemory>(m: &M, l: &Lay) {
    let a: u64 = kani::any();
    let len: usize = kani::any();
    let got = m.check_range(GuestAddress(a), len);
    if len >= 1 {
        assert!(got == l.range_mapped(a, len));
    } else if l.owner(a as u128).is_some() {
        // an empty range at a mapped base is valid; at an unmapped base the statement fixes no answer
        assert!(got);
    }
    kani::cover!(l.n < 2 || (len > 1 && got && l.owner(a as u128) != l.owner(a as u128 + len as u128 - 1)));
    kani::cover!(len >= 1 && got && l.owner(a as u128 + len as u128).is_none());
    kani::cover!(len >= 1 && !got && l.owner(a as u128).is_some());
    kani::cover!(len == usize::MAX);
}

fn q_get_slice<M: GuestMemory>(m: &M, l: &Lay) {
    let a: u64 = kani::any();
    let count: usize = kani::any();
    let own = l.owner(a as u128);
    let r = m.get_slice(GuestAddress(a), count);
    if count >= 1 {
        match (&r, own) {
            (Ok(s), Some(i)) => {
                assert!(a as u128 + count as u128 <= l.base[i] as u128 + l.size[i] as u128);
                let (p, n) = extent(s);
                assert!(p == l.host[i] as usize + (a - l.base[i]) as usize && n == count);
            }
            (Err(e), Some(i)) => {
                assert!(a as u128 + count as u128 > l.base[i] as u128 + l.size[i] as u128);
            }
            (Err(_), None) => {}
            _ => assert!(false),
        }
    }
    kani::cover!(r.is_ok() && count > 1 && a > l.base[0]);
    kani::cover!(r.is_err() && own.is_some() && count >= 1);
    kani::cover!(r.is_err() && own.is_none());
    kani::cover!(count == 0);
    leak(r);
}

macro_rules! real_q {
    ($name:ident, $NR:expr, $q:ident, $max:expr) => {
        #[kani::proof]
        fn $name() {
            let mut pool = PagePool([0u8; 64]);
            if let Some((m, l)) = real_map::<{ $NR }>(&mut pool, $max) {
                $q(&m, &l);
                core::mem::forget(m);
            }
        }
    };
}
macro_rules! mock_q {
    ($name:ident, $NR:expr, $q:ident, $max:expr) => {
        #[kani::proof]
        fn $name() {
            let mut pool = [0u8; mock::POOL];
            let (m, l) = mock_map::<{ $NR }>(&mut pool, $max);
            $q(&m, &l);
        }
    };
}
macro_rules! all_q {
    ($m:ident, $mk:ident, $NR:expr) => {
        pub mod $m {
            use super::*;
            $mk!(find, $NR, q_find, u64::MAX);
            $mk!(region_addr, $NR, q_region_addr, u64::MAX);
            $mk!(in_range, $NR, q_in_range, u64::MAX);
            $mk!(last, $NR, q_last, u64::MAX);
            $mk!(host, $NR, q_host, 4); // host pointers need real backing: sizes bounded by the pool
            $mk!(checked_offset, $NR, q_checked_offset, u64::MAX);
            $mk!(check_range, $NR, q_check_range, u64::MAX);
            $mk!(get_slice, $NR, q_get_slice, 4);
        }
    };
}
all_q!(real1, real_q, 1);
all_q!(real2, real_q, 2);
all_q!(real3, real_q, 3);
all_q!(mock1, mock_q, 1);
all_q!(mock2, mock_q, 2);
all_q!(mock3, mock_q, 3);

/// region-level queries (default methods of GuestMemoryRegion) on one region with symbolic 64-bit base and size
fn region_queries<R: GuestMemoryRegion>(r: &R, base: u64, size: u64) {
    assert!(r.start_addr().0 == base && r.len() == size);
    assert!(r.last_addr().0 == base + (size - 1));
    let o: u64 = kani::any();
    let inside = o < size;
    assert!(r.address_in_range(MemoryRegionAddress(o)) == inside);
    assert!(r.check_address(MemoryRegionAddress(o)) == if inside { Some(MemoryRegionAddress(o)) } else { None });
    let off: usize = kani::any();
    let sum = o as u128 + off as u128;
    match r.checked_offset(MemoryRegionAddress(o), off) {
        Some(x) => assert!(sum < size as u128 && x.0 as u128 == sum),
        None => assert!(sum >= size as u128),
    }
    let ga: u64 = kani::any();
    match r.to_region_addr(GuestAddress(ga)) {
        Some(x) => assert!(ga >= base && ga - base < size && x.0 == ga - base),
        None => assert!(ga < base || ga - base >= size),
    }
    kani::cover!(o == size); // first address past the region
    kani::cover!(o == size - 1);
    kani::cover!(sum == size as u128 && off > 0);
    kani::cover!(ga == base + (size - 1));
    kani::cover!(ga > base && ga - base == size);
    kani::cover!(ga < base);
}

#[kani::proof]
fn region_queries_real() {
    cffi::small_pages();
    cffi::link();
    let mut pool = PagePool([0u8; 64]);
    if let Some((a, base, size)) = one_region(pool.0.as_mut_ptr(), u64::MAX) {
        region_queries(&*a, base, size);
        // host address: inside the region only (size bounded by the pool for the pointer comparison)
        core::mem::forget(a);
    }
}

#[kani::proof]
fn region_host_address_real() {
    cffi::small_pages();
    cffi::link();
    let mut pool = PagePool([0u8; 64]);
    let host = pool.0.as_mut_ptr();
    if let Some((a, base, size)) = one_region(host, 64) {
        let o: u64 = kani::any();
        let r = a.get_host_address(MemoryRegionAddress(o));
        match &r {
            Ok(p) => assert!(o < size && *p == host.wrapping_add(o as usize)),
            Err(_) => assert!(o >= size),
        }
        kani::cover!(r.is_ok() && o == size - 1);
        kani::cover!(r.is_err() && o == size);
        leak(r);
        core::mem::forget(a);
    }
}

#[kani::proof]
fn region_queries_mock() {
    let mut pool = [0u8; mock::POOL];
    let (m, l) = mock_map::<1>(&mut pool, u64::MAX);
    region_queries(&m.regions[0], l.base[0], l.size[0]);
}
