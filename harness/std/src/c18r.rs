//! C18 - zero-length accesses at region level (real GuestRegionMmap) and guest-memory level (real default methods and
//! blanket `Bytes<GuestAddress>` over the mock, plus a one-region real GuestMemoryMmap).
use crate::cffi::PagePool;
use crate::common::*;
use crate::mock;
use crate::regn::mk_region;
use vm_memory::{Bytes, GuestAddress, GuestMemory, GuestMemoryRegion, MemoryRegionAddress};

#[kani::proof]
#[kani::unwind(4)]
fn region_empty_accesses() {
    let mut pool = PagePool(kani::any());
    let before = pool.0;
    let g = mk_region(&mut pool, 16, 0x1000);
    let a = MemoryRegionAddress(kani::any());
    let which: u8 = kani::any();
    let mut empty: [u8; 0] = [];
    match which {
        0 => { let r = g.write(&[], a); assert!(matches!(r, Ok(0))); leak(r) }
        1 => { let r = g.read(&mut empty, a); assert!(matches!(r, Ok(0))); leak(r) }
        2 => { let r = g.write_slice(&[], a); assert!(r.is_ok()); leak(r) }
        3 => { let r = g.read_slice(&mut empty, a); assert!(r.is_ok()); leak(r) }
        4 => { let r = g.write_obj([0u8; 0], a); assert!(r.is_ok()); leak(r) }
        _ => { let r = g.read_obj::<[u16; 0]>(a); assert!(r.is_ok()); leak(r) }
    }
    assert!(g.bitmap().is_clean());
    kani::cover!(a.0 >= 16);
    kani::cover!(a.0 == u64::MAX);
    kani::cover!(a.0 < 16);
    core::mem::forget(g);
    let i: usize = kani::any();
    kani::assume(i < 64);
    assert!(pool.0[i] == before[i]);
}

#[kani::proof]
#[kani::unwind(4)]
fn region_zero_count_streams() {
    let mut pool = PagePool(kani::any());
    let before = pool.0;
    let g = mk_region(&mut pool, 16, 0x1000);
    let a = MemoryRegionAddress(kani::any());
    kani::assume(a.0 < 16); // addresses valid for a non-empty access
    let src_buf: [u8; 2] = kani::any();
    let mut src: &[u8] = &src_buf[..];
    let mut dst_buf = [0u8; 2];
    let mut dst: &mut [u8] = &mut dst_buf[..];
    let which: u8 = kani::any();
    match which {
        0 => { let r = g.read_volatile_from(a, &mut src, 0); assert!(matches!(r, Ok(0))); leak(r) }
        1 => { let r = g.read_exact_volatile_from(a, &mut src, 0); assert!(r.is_ok()); leak(r) }
        2 => { let r = g.write_volatile_to(a, &mut dst, 0); assert!(matches!(r, Ok(0))); leak(r) }
        _ => { let r = g.write_all_volatile_to(a, &mut dst, 0); assert!(r.is_ok()); leak(r) }
    }
    assert!(src.len() == 2 && dst.len() == 2);
    assert!(g.bitmap().is_clean());
    core::mem::forget(g);
    let i: usize = kani::any();
    kani::assume(i < 64);
    assert!(pool.0[i] == before[i]);
}

/// guest-memory level: any address - mapped, one past a region, in a hole, 0, u64::MAX
fn guest_empty<const WHICH: u8>() {
    let mut pool: [u8; mock::POOL] = kani::any();
    let before = pool;
    let m = mock::any_layout(&mut pool, 2);
    let a: u64 = kani::any();
    let mut empty: [u8; 0] = [];
    match WHICH {
        0 => { let r = m.write(&[], GuestAddress(a)); assert!(matches!(r, Ok(0))); leak(r) }
        1 => { let r = m.read(&mut empty, GuestAddress(a)); assert!(matches!(r, Ok(0))); leak(r) }
        2 => { let r = m.write_slice(&[], GuestAddress(a)); assert!(r.is_ok()); leak(r) }
        3 => { let r = m.read_slice(&mut empty, GuestAddress(a)); assert!(r.is_ok()); leak(r) }
        4 => { let r = m.write_obj([0u8; 0], GuestAddress(a)); assert!(r.is_ok()); leak(r) }
        _ => { let r = m.read_obj::<[u8; 0]>(GuestAddress(a)); assert!(r.is_ok()); leak(r) }
    }
    kani::cover!(m.owner(a as u128).is_none() && a > 0 && m.owner(a as u128 - 1).is_some()); // one past a region
    kani::cover!(m.owner(a as u128).is_some());
    kani::cover!(a == u64::MAX);
    kani::cover!(a == 0 && m.owner(0).is_none());
    assert!(m.regions[0].rec.is_clean() && m.regions[1].rec.is_clean());
    let i: usize = kani::any();
    kani::assume(i < mock::POOL);
    assert!(pool[i] == before[i]);
}
macro_rules! ge {
    ($name:ident, $w:expr) => {
        #[kani::proof]
        #[kani::unwind(5)]
        fn $name() {
            guest_empty::<{ $w }>()
        }
    };
}
ge!(guest_empty_write, 0);
ge!(guest_empty_read, 1);
ge!(guest_empty_write_slice, 2);
ge!(guest_empty_read_slice, 3);
ge!(guest_empty_write_obj, 4);
ge!(guest_empty_read_obj, 5);

/// zero-count stream transfers at guest level, at addresses valid for a non-empty access (one form per query; run
/// with the C14 settings: -Z restrict-vtable and per-loop bounds)
fn guest_zero_count_stream<const WHICH: u8>() {
    let mut pool: [u8; mock::POOL] = kani::any();
    let before = pool;
    let m = mock::any_layout(&mut pool, 2);
    let a: u64 = kani::any();
    kani::assume(m.owner(a as u128).is_some());
    let src_buf: [u8; 2] = kani::any();
    let mut src: &[u8] = &src_buf[..];
    let mut dst_buf = [0u8; 2];
    let mut dst: &mut [u8] = &mut dst_buf[..];
    match WHICH {
        0 => { let r = m.read_volatile_from(GuestAddress(a), &mut src, 0); assert!(matches!(r, Ok(0))); leak(r) }
        1 => { let r = m.read_exact_volatile_from(GuestAddress(a), &mut src, 0); assert!(r.is_ok()); leak(r) }
        2 => { let r = m.write_volatile_to(GuestAddress(a), &mut dst, 0); assert!(matches!(r, Ok(0))); leak(r) }
        _ => { let r = m.write_all_volatile_to(GuestAddress(a), &mut dst, 0); assert!(r.is_ok()); leak(r) }
    }
    assert!(src.len() == 2 && dst.len() == 2);
    assert!(m.regions[0].rec.is_clean() && m.regions[1].rec.is_clean());
    kani::cover!(a > m.regions[0].start);
    let i: usize = kani::any();
    kani::assume(i < mock::POOL);
    assert!(pool[i] == before[i]);
}
#[kani::proof]
fn gs_read_volatile_from() {
    guest_zero_count_stream::<0>()
}
#[kani::proof]
fn gs_read_exact_volatile_from() {
    guest_zero_count_stream::<1>()
}
#[kani::proof]
fn gs_write_volatile_to() {
    guest_zero_count_stream::<2>()
}
#[kani::proof]
fn gs_write_all_volatile_to() {
    guest_zero_count_stream::<3>()
}
