//! C17(a) - pointer guards span their accessor (standard build): `len()` is the number of BYTES the accessor covers,
//! `as_ptr()` its first byte; for slices, typed references and element arrays, every element type of E1.
use crate::common::*;
use core::mem::size_of;
use vm_memory::{VolatileMemory, VolatileSlice};

const N: usize = 32;

macro_rules! guards {
    ($m:ident, $T:ty) => {
        mod $m {
            use super::*;
            const SZ: usize = size_of::<$T>();

            #[kani::proof]
            fn slice_and_ref() {
                let mut buf = Aligned::<N>::zero();
                let (wo, wc) = any_window(N);
                let base = buf.base();
                let p = VolatileSlice::from(&mut buf.0[wo..wo + wc]);
                let g = p.ptr_guard();
                assert!(g.as_ptr() as usize == base + wo && g.len() == wc);
                let g = p.ptr_guard_mut();
                assert!(g.as_ptr() as usize == base + wo && g.len() == wc);
                let off: usize = kani::any();
                let r = p.get_ref::<$T>(off);
                if let Ok(v) = &r {
                    let g = v.ptr_guard();
                    assert!(g.as_ptr() as usize == base + wo + off && g.len() == SZ);
                    let g = v.ptr_guard_mut();
                    assert!(g.as_ptr() as usize == base + wo + off && g.len() == SZ);
                }
                kani::cover!(r.is_ok() && off > 0);
                leak(r);
            }

            #[kani::proof]
            fn array() {
                let mut buf = Aligned::<N>::zero();
                let (wo, wc) = any_window(N);
                let base = buf.base();
                let p = VolatileSlice::from(&mut buf.0[wo..wo + wc]);
                let off: usize = kani::any();
                let n: usize = kani::any();
                let r = p.get_array_ref::<$T>(off, n);
                if let Ok(a) = &r {
                    let g = a.ptr_guard();
                    assert!(g.as_ptr() as usize == base + wo + off);
                    assert!(g.len() == n * SZ);
                    let g = a.ptr_guard_mut();
                    assert!(g.as_ptr() as usize == base + wo + off);
                    assert!(g.len() == n * SZ);
                    // the guard of the equivalent slice agrees
                    let s = a.to_slice();
                    assert!(s.ptr_guard().len() == n * SZ);
                }
                kani::cover!(r.is_ok() && n > 1);
                kani::cover!(r.is_ok() && n == 0);
                leak(r);
            }
        }
    };
}
guards!(g_u8, u8);
guards!(g_u16, u16);
guards!(g_u32, u32);
guards!(g_u64, u64);
guards!(g_u128, u128);
guards!(g_a3, [u8; 3]);
guards!(g_le32, vm_memory::Le32);
