//! C15 - region construction accepts exactly the safe requests and builds what was asked (standard Unix build).
//! All request parameters are unconstrained; the `mmap`/`lseek64`/`close` models record what the library asked the
//! kernel for.  "Byte i of the region is byte offset+i of the file" is the kernel's mmap contract (outside the
//! claim); what is decided is that the library passes exactly (size, prot, flags, fd, offset).
use crate::cffi::{self, *};
use crate::common::*;
use std::fs::File;
use std::os::fd::FromRawFd;
use vm_memory::mmap::{Error as MErr, MmapRegion, MmapRegionBuilder, MmapRegionError as RErr};
use vm_memory::{FileOffset, GuestAddress, GuestMemoryRegion, GuestRegionMmap};

const FD: i32 = 7;

fn slot0() -> Slot {
    unsafe { MAPS[0] }
}
fn counts() -> (usize, usize, usize, usize) {
    unsafe { (N_MMAP, N_MUNMAP, BAD_MUNMAP, live_count()) }
}

/// anonymous mapping through the builder: MAP_FIXED refused before anything is mapped; otherwise mmap is asked for
/// exactly (size, prot, flags, -1, 0) and the region reports the request; a failing mmap leaves nothing mapped
#[kani::proof]
fn builder_anon() {
    cffi::link();
    let (size, prot, flags): (usize, i32, i32) = (kani::any(), kani::any(), kani::any());
    let addr: usize = kani::any();
    kani::assume(addr != usize::MAX);
    let fail: bool = kani::any();
    unsafe {
        NEXT_BASE[0] = addr;
        MMAP_FAIL = fail;
    }
    let r = MmapRegionBuilder::<()>::new(size).with_mmap_prot(prot).with_mmap_flags(flags).build();
    let fixed = flags & libc::MAP_FIXED != 0;
    match &r {
        Ok(reg) => {
            assert!(!fixed && !fail);
            assert!(reg.size() == size && reg.prot() == prot && reg.flags() == flags && reg.owned());
            assert!(reg.file_offset().is_none() && reg.as_ptr() as usize == addr);
            let s = slot0();
            assert!(s.live && s.len == size && s.prot == prot && s.flags == flags && s.fd == -1 && s.off == 0);
            assert!(counts() == (1, 0, 0, 1));
        }
        Err(e) => {
            if fixed {
                assert!(matches!(e, RErr::MapFixed));
                assert!(counts() == (0, 0, 0, 0));
            } else {
                assert!(fail && matches!(e, RErr::Mmap(_)));
                assert!(counts() == (1, 0, 0, 0));
            }
        }
    }
    kani::cover!(r.is_ok() && size == 0);
    kani::cover!(matches!(r, Err(RErr::MapFixed)));
    kani::cover!(matches!(r, Err(RErr::Mmap(_))));
    core::mem::forget(r);
}

/// file-backed mapping: offset+size overflow and mapping past EOF refused with nothing mapped; otherwise mmap is asked
/// for exactly (size, prot, flags, fd, offset)
#[kani::proof]
fn builder_file() {
    cffi::link();
    let (size, prot, flags): (usize, i32, i32) = (kani::any(), kani::any(), kani::any());
    let start: u64 = kani::any();
    let flen: i64 = kani::any();
    kani::assume(flen >= 0);
    let seek_fail: bool = kani::any();
    let addr: usize = kani::any();
    kani::assume(addr != usize::MAX);
    unsafe {
        NEXT_BASE[0] = addr;
        FILE_LEN = flen;
        LSEEK_FAIL = seek_fail;
    }
    // SAFETY: the descriptor is only ever passed to the models
    let file = unsafe { File::from_raw_fd(FD) };
    let fo = FileOffset::new(file, start);
    let r = MmapRegionBuilder::<()>::new(size).with_mmap_prot(prot).with_mmap_flags(flags).with_file_offset(fo).build();
    let fixed = flags & libc::MAP_FIXED != 0;
    let end = start as u128 + size as u128;
    match &r {
        Ok(reg) => {
            assert!(!fixed && !seek_fail && end <= u64::MAX as u128 && end <= flen as u128);
            assert!(reg.size() == size && reg.prot() == prot && reg.flags() == flags && reg.owned());
            match reg.file_offset() {
                Some(f) => assert!(f.start() == start),
                None => assert!(false),
            }
            let s = slot0();
            assert!(s.live && s.len == size && s.prot == prot && s.flags == flags && s.fd == FD && s.off == start as i64);
            assert!(counts() == (1, 0, 0, 1));
        }
        Err(e) => {
            assert!(counts() == (0, 0, 0, 0)); // nothing was mapped
            match e {
                RErr::MapFixed => assert!(fixed),
                RErr::InvalidOffsetLength => assert!(!fixed && end > u64::MAX as u128),
                RErr::SeekEnd(_) => assert!(!fixed && end <= u64::MAX as u128 && seek_fail),
                RErr::MappingPastEof => assert!(!fixed && !seek_fail && end <= u64::MAX as u128 && (flen as u128) < end),
                _ => assert!(false),
            }
        }
    }
    kani::cover!(r.is_ok() && end == flen as u128 && size > 0);
    kani::cover!(matches!(r, Err(RErr::MappingPastEof)) && end == flen as u128 + 1);
    kani::cover!(matches!(r, Err(RErr::InvalidOffsetLength)) && end == u64::MAX as u128 + 1);
    kani::cover!(matches!(r, Err(RErr::SeekEnd(_))));
    core::mem::forget(r);
}

/// externally supplied pointer: refused unless page aligned; never mapped or unmapped by the library
#[kani::proof]
fn builder_raw() {
    cffi::link();
    let (size, prot, flags): (usize, i32, i32) = (kani::any(), kani::any(), kani::any());
    let addr: usize = kani::any();
    let via_assoc: bool = kani::any();
    // SAFETY: never dereferenced
    let r = unsafe {
        if via_assoc {
            MmapRegion::<()>::build_raw(addr as *mut u8, size, prot, flags)
        } else {
            MmapRegionBuilder::<()>::new(size).with_mmap_prot(prot).with_mmap_flags(flags).with_raw_mmap_pointer(addr as *mut u8).build()
        }
    };
    let aligned = addr % cffi::PAGE == 0;
    match &r {
        Ok(reg) => {
            assert!(aligned);
            assert!(reg.size() == size && reg.prot() == prot && reg.flags() == flags && !reg.owned());
            assert!(reg.as_ptr() as usize == addr && reg.file_offset().is_none());
        }
        Err(e) => assert!(!aligned && matches!(e, RErr::InvalidPointer)),
    }
    assert!(counts() == (0, 0, 0, 0));
    kani::cover!(r.is_ok() && addr != 0);
    kani::cover!(r.is_err() && addr % cffi::PAGE == cffi::PAGE - 1);
    kani::cover!(r.is_err() && addr % cffi::PAGE == 1);
    core::mem::forget(r);
}

/// the convenience constructors ask for the documented protection and flags
#[kani::proof]
fn convenience_constructors() {
    cffi::link();
    let size: usize = kani::any();
    let start: u64 = kani::any();
    let flen: i64 = kani::any();
    kani::assume(flen >= 0);
    unsafe {
        NEXT_BASE[0] = 0x7000_0000;
        FILE_LEN = flen;
    }
    let which: u8 = kani::any();
    kani::assume(which < 3);
    let (prot, flags): (i32, i32) = (kani::any(), kani::any());
    let rw = libc::PROT_READ | libc::PROT_WRITE;
    let r = match which {
        0 => MmapRegion::<()>::new(size),
        1 => MmapRegion::<()>::from_file(FileOffset::new(unsafe { File::from_raw_fd(FD) }, start), size),
        _ => MmapRegion::<()>::build(None, size, prot, flags),
    };
    if let Ok(reg) = &r {
        let s = slot0();
        assert!(s.live && s.len == size && reg.size() == size && reg.owned());
        match which {
            0 => {
                assert!(s.prot == rw && s.flags == libc::MAP_ANONYMOUS | libc::MAP_NORESERVE | libc::MAP_PRIVATE && s.fd == -1 && s.off == 0);
                assert!(reg.prot() == rw && reg.flags() == s.flags);
            }
            1 => {
                assert!(s.prot == rw && s.flags == libc::MAP_NORESERVE | libc::MAP_SHARED && s.fd == FD && s.off == start as i64);
                assert!(start as u128 + size as u128 <= flen as u128);
            }
            _ => assert!(s.prot == prot && s.flags == flags && s.fd == -1 && flags & libc::MAP_FIXED == 0),
        }
    } else {
        assert!(counts().3 == 0);
        assert!(which != 0);
    }
    kani::cover!(r.is_ok() && which == 0);
    kani::cover!(r.is_ok() && which == 1);
    kani::cover!(r.is_ok() && which == 2);
    kani::cover!(r.is_err() && which == 1);
    kani::cover!(r.is_err() && which == 2);
    core::mem::forget(r);
}

/// GuestRegionMmap::from_range: guest base + size beyond the address space refused, and then nothing stays mapped
#[kani::proof]
fn guest_region_from_range() {
    cffi::link();
    let base: u64 = kani::any();
    let size: usize = kani::any();
    unsafe { NEXT_BASE[0] = 0x7000_0000 };
    let r = GuestRegionMmap::<()>::from_range(GuestAddress(base), size, None);
    let overflow = base as u128 + size as u128 > u64::MAX as u128;
    match &r {
        Ok(g) => {
            assert!(!overflow && g.start_addr().0 == base && g.len() == size as u64);
            assert!(counts() == (1, 0, 0, 1));
        }
        Err(e) => {
            assert!(overflow && matches!(e, MErr::InvalidGuestRegion));
            // the mapping that had already been created is released again
            assert!(counts() == (1, 1, 0, 0));
        }
    }
    kani::cover!(r.is_ok() && base as u128 + size as u128 == u64::MAX as u128);
    kani::cover!(r.is_err() && base as u128 + size as u128 == u64::MAX as u128 + 1);
    core::mem::forget(r);
}
