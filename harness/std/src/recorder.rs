//! A recording `Bitmap`: remembers every `mark_dirty(offset, len)` that reaches the root.  It is wrapped by
//! the crate's *real* `BaseSlice` (`RefSlice<Recorder>`), so offsets arriving here were composed by the real
//! `slice_at` chain of whatever accessor issued the mark.
use core::cell::Cell;
use vm_memory::bitmap::{Bitmap, RefSlice, WithBitmapSlice};

pub const K: usize = 4;

#[derive(Debug)]
pub struct Recorder {
    pub marks: Cell<[(usize, usize); K]>,
    pub n: Cell<usize>,
    /// number of mark_dirty calls including empty ones
    pub calls: Cell<usize>,
}

impl Recorder {
    pub fn new() -> Self {
        Recorder { marks: Cell::new([(0, 0); K]), n: Cell::new(0), calls: Cell::new(0) }
    }
    /// is byte `off` (root coordinates) inside a recorded non-empty range?
    pub fn covers(&self, off: usize) -> bool {
        let m = self.marks.get();
        let n = self.n.get();
        let hit = |i: usize| i < n && off >= m[i].0 && off - m[i].0 < m[i].1;
        hit(0) || hit(1) || hit(2) || hit(3)
    }
    /// every recorded non-empty range lies inside [lo, lo+len)
    pub fn all_within(&self, lo: usize, len: usize) -> bool {
        let m = self.marks.get();
        let n = self.n.get();
        let ok = |i: usize| {
            let (o, l) = m[i];
            i >= n || (o >= lo && o - lo <= len && l <= len - (o - lo))
        };
        ok(0) && ok(1) && ok(2) && ok(3)
    }
    pub fn is_clean(&self) -> bool {
        self.n.get() == 0
    }
}

impl<'a> WithBitmapSlice<'a> for Recorder {
    type S = RefSlice<'a, Self>;
}

impl Bitmap for Recorder {
    fn mark_dirty(&self, offset: usize, len: usize) {
        self.calls.set(self.calls.get() + 1);
        if len == 0 {
            return; // an empty range names no byte
        }
        let n = self.n.get();
        assert!(n < K, "recorder capacity");
        let mut m = self.marks.get();
        m[n] = (offset, len);
        self.marks.set(m);
        self.n.set(n + 1);
    }
    fn dirty_at(&self, offset: usize) -> bool {
        self.covers(offset)
    }
    fn slice_at(&self, offset: usize) -> RefSlice<'_, Self> {
        RefSlice::new(self, offset)
    }
}
