#!/usr/bin/env python3
"""mkmut.py <name> <file> <old> <new>  -> writes mutants/<name>.diff (exact single replacement in /repo/<file>)"""
import sys, subprocess
name, f, old, new = sys.argv[1:5]
p = "/repo/" + f
s = open(p).read()
assert s.count(old) == 1, "pattern count %d for %s" % (s.count(old), name)
open(p, "w").write(s.replace(old, new))
d = subprocess.run(["git", "-C", "/repo", "diff"], capture_output=True).stdout
open("/verif/mutants/%s.diff" % name, "wb").write(d)
subprocess.check_call(["git", "-C", "/repo", "checkout", "--", "."])
print(name, len(d))
