//! C13 - volatile stream adapters transfer data exactly like their std::io counterparts (E9, differential against
//! the std the harness is compiled with: twin streams with symbolic content / length / position).
use crate::cffi;
use crate::common::*;
use std::io::{Cursor, ErrorKind, Read, Write};
use vm_memory::{ReadVolatile, VolatileMemoryError as VErr, VolatileSlice, WriteVolatile};

const N: usize = 10;

fn io_kind(e: &VErr) -> Option<ErrorKind> {
    match e {
        VErr::IOError(io) => Some(io.kind()),
        _ => None,
    }
}

/// compare the outcome of a volatile call with the std call: same count / same success
fn same_count(r1: &Result<usize, VErr>, r2: &std::io::Result<usize>) -> usize {
    match (r1, r2) {
        (Ok(a), Ok(b)) => {
            assert!(*a == *b);
            *a
        }
        _ => {
            assert!(false);
            0
        }
    }
}

fn same_exact(r1: &Result<(), VErr>, r2: &std::io::Result<()>, kind: ErrorKind) -> bool {
    match (r1, r2) {
        (Ok(()), Ok(())) => true,
        (Err(e1), Err(e2)) => {
            assert!(io_kind(e1) == Some(kind) && e2.kind() == kind);
            false
        }
        _ => {
            assert!(false);
            false
        }
    }
}

/// ReadVolatile for &[u8]: two consecutive calls on the same stream
#[kani::proof]
#[kani::unwind(10)]
fn slice_reader() {
    let content: [u8; N] = kani::any();
    let slen: usize = kani::any();
    kani::assume(slen <= N);
    let mut mem: [u8; N] = kani::any();
    let mut twin = mem;
    let (b1, b2): (usize, usize) = (kani::any(), kani::any());
    kani::assume(b1 <= N && b2 <= N - b1);
    let mut s1: &[u8] = &content[..slen];
    let mut s2: &[u8] = &content[..slen];
    let exact: bool = kani::any();
    if !exact {
        let r1 = s1.read_volatile(&mut VolatileSlice::from(&mut mem[..b1]));
        let r2 = Read::read(&mut s2, &mut twin[..b1]);
        let n = same_count(&r1, &r2);
        leak(r1);
        leak(r2);
        assert!(s1.len() == s2.len() && s1.as_ptr() == s2.as_ptr());
        let r1 = s1.read_volatile(&mut VolatileSlice::from(&mut mem[b1..b1 + b2]));
        let r2 = Read::read(&mut s2, &mut twin[b1..b1 + b2]);
        let n2 = same_count(&r1, &r2);
        leak(r1);
        leak(r2);
        kani::cover!(n > 8 && n2 > 0);
        kani::cover!(n < b1);
        kani::cover!(n == b1 && b1 > 0 && n2 < b2);
    } else {
        let r1 = s1.read_exact_volatile(&mut VolatileSlice::from(&mut mem[..b1]));
        let r2 = Read::read_exact(&mut s2, &mut twin[..b1]);
        let ok = same_exact(&r1, &r2, ErrorKind::UnexpectedEof);
        leak(r1);
        leak(r2);
        kani::cover!(ok && b1 > 0);
        kani::cover!(!ok);
        if !ok {
            // after a failed exact call only success/failure equivalence is required (newer std versions consume the
            // stream, this crate does not): stop comparing here
            return;
        }
    }
    assert!(s1.len() == s2.len() && s1.as_ptr() == s2.as_ptr());
    let i: usize = kani::any();
    kani::assume(i < N);
    assert!(mem[i] == twin[i]);
}

/// WriteVolatile for &mut [u8]
#[kani::proof]
#[kani::unwind(10)]
fn slice_writer() {
    let mut mem: [u8; N] = kani::any();
    let memcopy = mem;
    let mut d1: [u8; N] = kani::any();
    let mut d2 = d1;
    let dlen: usize = kani::any();
    kani::assume(dlen <= N);
    let (b1, b2): (usize, usize) = (kani::any(), kani::any());
    kani::assume(b1 <= N && b2 <= N - b1);
    let exact: bool = kani::any();
    {
        let mut w1: &mut [u8] = &mut d1[..dlen];
        let mut w2: &mut [u8] = &mut d2[..dlen];
        if !exact {
            let r1 = w1.write_volatile(&VolatileSlice::from(&mut mem[..b1]));
            let r2 = Write::write(&mut w2, &memcopy[..b1]);
            let n = same_count(&r1, &r2);
            leak(r1);
            leak(r2);
            assert!(w1.len() == w2.len());
            let r1 = w1.write_volatile(&VolatileSlice::from(&mut mem[b1..b1 + b2]));
            let r2 = Write::write(&mut w2, &memcopy[b1..b1 + b2]);
            let n2 = same_count(&r1, &r2);
            leak(r1);
            leak(r2);
            assert!(w1.len() == w2.len());
            kani::cover!(n > 8 && n2 > 0);
            kani::cover!(n < b1);
        } else {
            let r1 = w1.write_all_volatile(&VolatileSlice::from(&mut mem[..b1]));
            let r2 = Write::write_all(&mut w2, &memcopy[..b1]);
            let ok = same_exact(&r1, &r2, ErrorKind::WriteZero);
            leak(r1);
            leak(r2);
            kani::cover!(ok && b1 > 0);
            kani::cover!(!ok);
            if ok {
                assert!(w1.len() == w2.len());
            }
        }
    }
    let i: usize = kani::any();
    kani::assume(i < N);
    if !exact {
        assert!(d1[i] == d2[i]);
    }
    assert!(mem[i] == memcopy[i]); // the guest side is only read
}

/// WriteVolatile for Vec<u8>: container shapes concrete (E10) - initial length PLEN, two writes of B1 and B2 bytes;
/// contents symbolic
fn vec_writer_body<const PLEN: usize, const B1: usize, const B2: usize, const EXACT: bool>() {
    let mut mem: [u8; N] = kani::any();
    let memcopy = mem;
    let pre: [u8; 2] = kani::any();
    let mut v1: Vec<u8> = Vec::new();
    let mut v2: Vec<u8> = Vec::new();
    v1.extend_from_slice(&pre[..PLEN]);
    v2.extend_from_slice(&pre[..PLEN]);
    if !EXACT {
        let r1 = v1.write_volatile(&VolatileSlice::from(&mut mem[..B1]));
        let r2 = Write::write(&mut v2, &memcopy[..B1]);
        same_count(&r1, &r2);
        leak(r1);
        leak(r2);
        let r1 = v1.write_volatile(&VolatileSlice::from(&mut mem[B1..B1 + B2]));
        let r2 = Write::write(&mut v2, &memcopy[B1..B1 + B2]);
        same_count(&r1, &r2);
        leak(r1);
        leak(r2);
    } else {
        let r1 = v1.write_all_volatile(&VolatileSlice::from(&mut mem[..B1]));
        let r2 = Write::write_all(&mut v2, &memcopy[..B1]);
        assert!(same_exact(&r1, &r2, ErrorKind::WriteZero));
        leak(r1);
        leak(r2);
    }
    assert!(v1.len() == v2.len());
    assert!(v1.len() == PLEN + B1 + if EXACT { 0 } else { B2 });
    let i: usize = kani::any();
    kani::assume(i < v1.len());
    assert!(v1[i] == v2[i]);
    kani::cover!(i == v1.len() - 1);
    core::mem::forget(v1);
    core::mem::forget(v2);
}
macro_rules! vecw {
    ($name:ident, $p:expr, $b1:expr, $b2:expr, $e:expr) => {
        vecw!($name, $p, $b1, $b2, $e, 10);
    };
    ($name:ident, $p:expr, $b1:expr, $b2:expr, $e:expr, $u:expr) => {
        #[kani::proof]
        #[kani::unwind($u)]
        fn $name() {
            vec_writer_body::<{ $p }, { $b1 }, { $b2 }, { $e }>()
        }
    };
}
vecw!(vec_writer_0_3_0, 0, 3, 0, false);
vecw!(vec_writer_2_8_1, 2, 8, 1, false);
vecw!(vec_writer_1_9_1, 1, 9, 1, false);
vecw!(vec_writer_0_0_4, 0, 0, 4, false);
// (write_all_volatile on a Vec is the default loop over Vec::write_volatile; that combination runs CBMC out of memory
// (> 16 GB in array post-processing).  The default loop is decided on Cursor<&mut [u8]> (cursor_writer_all) and, with
// scripted streams, in C14; Vec::write_volatile is decided above.)

/// ReadVolatile for Cursor<&[u8]>, any 64-bit position (including past the end)
#[kani::proof]
#[kani::unwind(10)]
fn cursor_reader() {
    let content: [u8; N] = kani::any();
    let slen: usize = kani::any();
    kani::assume(slen <= N);
    let pos: u64 = kani::any();
    let mut mem: [u8; N] = kani::any();
    let mut twin = mem;
    let (b1, b2): (usize, usize) = (kani::any(), kani::any());
    kani::assume(b1 <= N && b2 <= N - b1);
    let mut c1 = Cursor::new(&content[..slen]);
    let mut c2 = Cursor::new(&content[..slen]);
    c1.set_position(pos);
    c2.set_position(pos);
    let exact: bool = kani::any();
    if !exact {
        let r1 = c1.read_volatile(&mut VolatileSlice::from(&mut mem[..b1]));
        let r2 = Read::read(&mut c2, &mut twin[..b1]);
        let n = same_count(&r1, &r2);
        leak(r1);
        leak(r2);
        assert!(c1.position() == c2.position());
        let r1 = c1.read_volatile(&mut VolatileSlice::from(&mut mem[b1..b1 + b2]));
        let r2 = Read::read(&mut c2, &mut twin[b1..b1 + b2]);
        let n2 = same_count(&r1, &r2);
        leak(r1);
        leak(r2);
        kani::cover!(n > 0 && n2 > 0 && pos > 0);
        kani::cover!(pos > slen as u64 && b1 > 0);
        kani::cover!(pos == u64::MAX);
    } else {
        let r1 = c1.read_exact_volatile(&mut VolatileSlice::from(&mut mem[..b1]));
        let r2 = Read::read_exact(&mut c2, &mut twin[..b1]);
        let ok = same_exact(&r1, &r2, ErrorKind::UnexpectedEof);
        leak(r1);
        leak(r2);
        kani::cover!(ok && b1 > 0 && pos > 0);
        kani::cover!(!ok && pos < slen as u64);
        if !ok {
            return;
        }
    }
    assert!(c1.position() == c2.position());
    let i: usize = kani::any();
    kani::assume(i < N);
    assert!(mem[i] == twin[i]);
}

/// WriteVolatile for Cursor<&mut [u8]>
fn cursor_writer_body<const EXACT: bool>() {
    let mut mem: [u8; N] = kani::any();
    let memcopy = mem;
    let mut d1: [u8; N] = kani::any();
    let mut d2 = d1;
    let dlen: usize = kani::any();
    kani::assume(dlen <= N);
    let pos: u64 = kani::any();
    let (b1, b2): (usize, usize) = (kani::any(), kani::any());
    kani::assume(b1 <= N && b2 <= N - b1);
    let exact = EXACT;
    let (mut n, mut n2, mut ok) = (0, 0, false);
    {
        let mut c1 = Cursor::new(&mut d1[..dlen]);
        let mut c2 = Cursor::new(&mut d2[..dlen]);
        c1.set_position(pos);
        c2.set_position(pos);
        if !exact {
            let r1 = c1.write_volatile(&VolatileSlice::from(&mut mem[..b1]));
            let r2 = Write::write(&mut c2, &memcopy[..b1]);
            n = same_count(&r1, &r2);
            leak(r1);
            leak(r2);
            assert!(c1.position() == c2.position());
            let r1 = c1.write_volatile(&VolatileSlice::from(&mut mem[b1..b1 + b2]));
            let r2 = Write::write(&mut c2, &memcopy[b1..b1 + b2]);
            n2 = same_count(&r1, &r2);
            leak(r1);
            leak(r2);
            assert!(c1.position() == c2.position());
        } else {
            let r1 = c1.write_all_volatile(&VolatileSlice::from(&mut mem[..b1]));
            let r2 = Write::write_all(&mut c2, &memcopy[..b1]);
            ok = same_exact(&r1, &r2, ErrorKind::WriteZero);
            leak(r1);
            leak(r2);
            if ok {
                assert!(c1.position() == c2.position());
            }
        }
    }
    let i: usize = kani::any();
    kani::assume(i < N);
    if !exact {
        assert!(d1[i] == d2[i]);
    }
    assert!(mem[i] == memcopy[i]);
    kani::cover!(EXACT || (n > 0 && n2 > 0 && pos > 0));
    kani::cover!(EXACT || (pos > dlen as u64 && b1 > 0));
    kani::cover!(!EXACT || (ok && b1 > 0 && pos > 0));
    kani::cover!(!EXACT || (!ok && pos < dlen as u64));
}
#[kani::proof]
#[kani::unwind(10)]
fn cursor_writer() {
    cursor_writer_body::<false>()
}
#[kani::proof]
#[kani::unwind(10)]
fn cursor_writer_all() {
    cursor_writer_body::<true>()
}

/// descriptors (File): exactly one read(2)/write(2) with the guard's pointer and the buffer length, result passed
/// through, error -> IOError(last_os_error); never touches memory beyond the buffer (the model writes only what it
/// returns, Kani checks the bounds of the pointer it is given)
#[kani::proof]
#[kani::unwind(12)]
fn fd_read_write() {
    use std::fs::File;
    use std::os::fd::FromRawFd;
    cffi::link();
    cffi::link_io();
    let mut mem: [u8; N] = kani::any();
    let before = mem;
    let base = mem.as_ptr() as usize;
    let (o, b): (usize, usize) = (kani::any(), kani::any());
    kani::assume(o <= N && b <= N - o);
    let ret: isize = kani::any();
    kani::assume(ret >= -1);
    let errno: i32 = kani::any();
    kani::assume(errno == libc::EINTR || errno == libc::EIO || errno == libc::EAGAIN);
    unsafe {
        cffi::IO_RET[0] = ret;
        cffi::IO_ERRNO[0] = errno;
    }
    // SAFETY: descriptor only reaches the models
    let mut f = unsafe { File::from_raw_fd(5) };
    let do_read: bool = kani::any();
    let r = if do_read {
        f.read_volatile(&mut VolatileSlice::from(&mut mem[o..o + b]))
    } else {
        f.write_volatile(&VolatileSlice::from(&mut mem[o..o + b]))
    };
    core::mem::forget(f);
    unsafe {
        assert!(cffi::IO_CALLS == 1);
        assert!(cffi::IO_LOG[0] == (5, base + o, b));
    }
    let moved = if ret < 0 { 0 } else if ret as usize > b { b } else { ret as usize };
    match &r {
        Ok(n) => assert!(ret >= 0 && *n == moved),
        Err(e) => {
            assert!(ret < 0);
            let k = io_kind(e);
            assert!(k == Some(if errno == libc::EINTR { ErrorKind::Interrupted } else if errno == libc::EAGAIN { ErrorKind::WouldBlock } else { k.unwrap() }));
        }
    }
    kani::cover!(r.is_ok() && moved == b && b > 0);
    kani::cover!(r.is_ok() && moved < b);
    kani::cover!(r.is_err() && errno == libc::EINTR);
    leak(r);
    let i: usize = kani::any();
    kani::assume(i < N);
    if do_read && i >= o && i - o < moved {
        assert!(mem[i] == cffi::STAMP0.wrapping_add((i - o) as u8));
    } else {
        assert!(mem[i] == before[i]);
    }
    if !do_read {
        let k: usize = kani::any();
        kani::assume(k < moved);
        assert!(unsafe { cffi::IO_SINK[k] } == before[o + k]);
    }
}
