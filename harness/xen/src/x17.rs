//! C17(b) - on-demand mappings (Xen grant regions not mapped in advance) cover every access and are released.
//!
//! Environment: `sysconf` answers a 64-byte page (so one- and two-page windows are small objects), the ioctl stub
//! hands out indices and logs map/unmap requests, the `mmap` model returns a 128-byte pool (two pages) and logs
//! length/offset, `munmap` must name exactly that mapping.  The region is the real
//! `MmapRegion::from_range(GRANT | NO_ADVANCE_MAP)`; accesses go through the real accessors.
use crate::cffi::{self, *};
use crate::common::*;
use crate::xstubs::*;
use std::fs::File;
use std::os::fd::FromRawFd;
use vm_memory::mmap::{MmapRange, MmapRegion};
use vm_memory::{Bytes, FileOffset, GuestAddress, VolatileMemory, VolatileSlice};

const FD: i32 = 9;
const PG: usize = 64;
const REGION: usize = 4 * PG;

#[repr(C, align(64))]
pub struct Window(pub [u8; 2 * PG]);

pub struct Env {
    pub win: Window,
    pub gbase: u64,
    pub domid: u32,
}

/// after an access at region offset `off` touching `len` bytes: exactly one window was mapped, it covers the bytes,
/// the right frames were requested, and everything was released again
pub fn check_window(e: &Env, off: usize, len: usize, expect_calls: bool) {
    let page_base = (off / PG) * PG;
    let inpage = off - page_base;
    let npages = (inpage + len + PG - 1) / PG;
    if !expect_calls {
        assert!(nlog() == 0 && unsafe { N_MMAP } == 0);
        return;
    }
    // one map request, one unmap request
    assert!(nlog() == 2);
    let m = log(0);
    let u = log(1);
    assert!(m.req == req_map() && u.req == req_unmap());
    assert!(m.a == npages as u64); // number of grant references = pages covering [off, off+len)
    assert!(m.b == e.domid as u64);
    assert!(m.c == ((((e.gbase + page_base as u64) & !(1u64 << 63)) / PG as u64) as u32) as u64); // first frame
    assert!(u.index == m.index && u.a == npages as u64);
    // one mmap of the whole window at the index the driver returned, and its munmap
    assert!(unsafe { N_MMAP } == 1 && unsafe { N_MUNMAP } == 1 && unsafe { BAD_MUNMAP } == 0);
    let s = unsafe { MAPS[0] };
    assert!(!s.live && s.len == npages * PG && s.off as u64 == m.index && s.fd == FD);
    // the window covers every byte touched
    assert!(page_base <= off && off + len <= page_base + s.len);
    assert!(live_count() == 0);
}

macro_rules! setup {
    ($e:ident, $reg:ident) => {
        cffi::small_pages();
        cffi::link();
        let mut $e = Env { win: Window(kani::any()), gbase: kani::any(), domid: kani::any() };
        kani::assume($e.gbase % PG as u64 == 0 && $e.gbase <= u64::MAX - REGION as u64);
        unsafe {
            NEXT_BASE[0] = $e.win.0.as_mut_ptr() as usize;
        }
        // SAFETY: descriptor only reaches the models
        let fo = Some(FileOffset::new(unsafe { File::from_raw_fd(FD) }, 0));
        let range = MmapRange::new(REGION, fo, GuestAddress($e.gbase), 0x2 | 0x8, $e.domid);
        let $reg = match MmapRegion::<()>::from_range(range) {
            Ok(r) => r,
            Err(err) => {
                leak(err);
                assert!(false);
                return;
            }
        };
        assert!(nlog() == 0 && live_count() == 0);
    };
}

/// buffer write / read through a slice of the on-demand region, anywhere in the region, possibly crossing a page
fn rw_body<const WRITE: bool>() {
    setup!(e, reg);
    let before = e.win.0;
    let off: usize = kani::any();
    let len: usize = kani::any();
    kani::assume(len >= 1 && len <= 9 && off <= REGION - len);
    let data: [u8; 12] = kani::any();
    let mut out = data;
    let r = reg.get_slice(off, len);
    match &r {
        Ok(s) => {
            if WRITE {
                let w = s.write(&data[..len], 0);
                assert!(matches!(w, Ok(n) if n == len));
                leak(w);
            } else {
                let w = s.read(&mut out[..len], 0);
                assert!(matches!(w, Ok(n) if n == len));
                leak(w);
            }
        }
        Err(_) => assert!(false),
    }
    leak(r);
    check_window(&e, off, len, true);
    // the bytes landed in / came from the window at the in-page offset
    let inpage = off % PG;
    let i: usize = kani::any();
    kani::assume(i < 2 * PG);
    if WRITE {
        if i >= inpage && i - inpage < len {
            assert!(e.win.0[i] == data[i - inpage]);
        } else {
            assert!(e.win.0[i] == before[i]);
        }
    } else {
        assert!(e.win.0[i] == before[i]);
        let k: usize = kani::any();
        kani::assume(k < len);
        assert!(out[k] == before[inpage + k]);
    }
    kani::cover!(inpage + len > PG); // page-crossing access: two-page window
    kani::cover!(inpage + len == PG);
    kani::cover!(off >= PG && len > 8 && inpage + len <= PG);
    core::mem::forget(reg);
}
#[kani::proof]
#[kani::stub(vmm_sys_util::ioctl::ioctl_with_ref, ioctl_with_ref_stub)]
#[kani::stub(kani::rustc_intrinsics::offset, wrapping_offset_model)]
fn ondemand_write() {
    rw_body::<true>()
}
#[kani::proof]
#[kani::stub(vmm_sys_util::ioctl::ioctl_with_ref, ioctl_with_ref_stub)]
#[kani::stub(kani::rustc_intrinsics::offset, wrapping_offset_model)]
fn ondemand_read() {
    rw_body::<false>()
}

/// whole-object write (u64) and typed-reference store through the on-demand region
#[kani::proof]
#[kani::stub(vmm_sys_util::ioctl::ioctl_with_ref, ioctl_with_ref_stub)]
#[kani::stub(kani::rustc_intrinsics::offset, wrapping_offset_model)]
fn ondemand_obj() {
    setup!(e, reg);
    let off: usize = kani::any();
    kani::assume(off <= REGION - 8);
    let v: u64 = kani::any();
    let via_ref: bool = kani::any();
    if via_ref {
        let r = reg.get_ref::<u64>(off);
        match &r {
            Ok(vr) => vr.store(v),
            Err(_) => assert!(false),
        }
        leak(r);
    } else {
        let r = reg.get_slice(off, 8);
        match &r {
            Ok(s) => {
                let w = s.write_obj(v, 0);
                assert!(w.is_ok());
                leak(w);
            }
            Err(_) => assert!(false),
        }
        leak(r);
    }
    check_window(&e, off, 8, true);
    let inpage = off % PG;
    let k: usize = kani::any();
    kani::assume(k < 8);
    assert!(e.win.0[inpage + k] == v.to_le_bytes()[k]);
    kani::cover!(inpage + 8 > PG);
    kani::cover!(via_ref && inpage % 8 == 0);
    core::mem::forget(reg);
}

/// element array (u16) copy_from: the guard - hence the window - must span the whole array in BYTES
#[kani::proof]
#[kani::stub(vmm_sys_util::ioctl::ioctl_with_ref, ioctl_with_ref_stub)]
#[kani::stub(kani::rustc_intrinsics::offset, wrapping_offset_model)]
fn ondemand_array_copy() {
    setup!(e, reg);
    let off: usize = kani::any();
    let n: usize = kani::any();
    kani::assume(n >= 1 && n <= 4 && off <= REGION - 2 * n);
    let vals: [u16; 4] = kani::any();
    let r = reg.get_array_ref::<u16>(off, n);
    match &r {
        Ok(a) => a.copy_from(&vals[..n]),
        Err(_) => assert!(false),
    }
    leak(r);
    check_window(&e, off, 2 * n, true);
    let inpage = off % PG;
    let k: usize = kani::any();
    kani::assume(k < n);
    let b = vals[k].to_le_bytes();
    assert!(e.win.0[inpage + 2 * k] == b[0] && e.win.0[inpage + 2 * k + 1] == b[1]);
    kani::cover!(n == 4 && inpage + 8 > PG);
    core::mem::forget(reg);
}

/// atomic store: `get_atomic_ref` hands out a plain `&T` to the stored address, which for an on-demand region is not
/// mapped at all - recorded as a known finding (the dereference fails under Kani; no window is ever requested)
#[kani::proof]
#[kani::stub(vmm_sys_util::ioctl::ioctl_with_ref, ioctl_with_ref_stub)]
#[kani::stub(kani::rustc_intrinsics::offset, wrapping_offset_model)]
fn ondemand_atomic_store() {
    setup!(e, reg);
    let off: usize = kani::any();
    kani::assume(off <= REGION - 4 && off % 4 == 0);
    let r = reg.get_slice(off, 4);
    match &r {
        Ok(s) => {
            let w = s.store(7u32, 0, core::sync::atomic::Ordering::SeqCst);
            leak(w);
        }
        Err(_) => assert!(false),
    }
    leak(r);
    // the property demands a temporary mapping covering the 4 bytes
    check_window(&e, off, 4, true);
    core::mem::forget(reg);
}

/// Replacement for Kani's model of the `offset` intrinsic (`ptr.add/offset`): plain wrapping address arithmetic without
/// the "same allocation" check.  Needed because on-demand regions compute `NULL.add(offset)` (the UB-class finding):
/// Kani's model cuts every path after such an add, which would make all harnesses below vacuous for offsets != 0.
/// With this stub the x17 harnesses decide the window arithmetic UNDER THE ASSUMPTION that pointer addition on the
/// pseudo-pointers behaves as integer addition (as it does on real targets); Kani's own out-of-bounds `add` checks are
/// thereby off in these harnesses - dereferences are still checked.
pub fn wrapping_offset_model<T, P: Copy, O: Copy>(ptr: P, offset: O) -> P {
    assert!(core::mem::size_of::<P>() == 8 && core::mem::size_of::<O>() == 8);
    // SAFETY: P is a thin raw pointer (*const T / *mut T), O is isize or usize
    unsafe {
        let p: *const u8 = core::mem::transmute_copy(&ptr);
        let o: isize = core::mem::transmute_copy(&offset);
        let q = p.wrapping_offset(o.wrapping_mul(core::mem::size_of::<T>() as isize));
        core::mem::transmute_copy(&q)
    }
}


/// The UB-class finding itself, kept observable: with Kani's own model of `ptr.add` (no stub), slicing an on-demand
/// region at a non-zero offset computes NULL.add(offset).  Recorded in known_findings.json (UB-xen-ondemand-null-add).
#[kani::proof]
#[kani::stub(vmm_sys_util::ioctl::ioctl_with_ref, ioctl_with_ref_stub)]
fn ub_null_base_add() {
    setup!(e, reg);
    let off: usize = kani::any();
    kani::assume(off >= 1 && off < REGION);
    kani::cover!(off == 1); // reached the slicing call
    let r = reg.get_slice(off, 1);
    leak(r);
    core::mem::forget(reg);
}
