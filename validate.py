#!/usr/bin/env python3-vt
import json, jsonschema, glob, sys
jsonschema.validate(json.load(open('/verif/MANIFEST.json')), json.load(open('/root/.vp/MANIFEST.schema.json')))
n=0
for p in glob.glob('/verif/evidence/*.json'):
    jsonschema.validate(json.load(open(p)), json.load(open('/root/.vp/EVIDENCE.schema.json'))); n+=1
print("MANIFEST valid; %d evidence files valid" % n)
