//! Kani proof harnesses over rust-vmm/vm-memory built with feature "xen" (mmap/xen.rs replaces mmap/unix.rs).
//! Shares the libc models and helpers with harness/std through #[path].
#![allow(dead_code, unused_imports, unused_variables, unused_mut, clippy::all)]
#![cfg_attr(kani, feature(allocator_api))]
extern crate alloc;

#[cfg(kani)]
#[kani::proof]
fn __setup_noop() {}

#[cfg(kani)]
#[path = "../../std/src/cffi.rs"]
mod cffi;
#[cfg(kani)]
#[path = "../../std/src/common.rs"]
mod common;
#[cfg(kani)]
mod xstubs;
#[cfg(kani)]
mod x01;
#[cfg(kani)]
mod x15;
#[cfg(kani)]
mod x17;
