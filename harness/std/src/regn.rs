//! Region-level harnesses (E7-L2): the real `GuestRegionMmap` / `MmapRegion` (mmap/unix.rs) satisfy the region
//! contract the guest-memory layer relies on.  The region is a raw-pointer region over a page-aligned pool
//! (`with_raw_mmap_pointer`), so Kani's object bounds are the region bounds; it carries the recording bitmap, so
//! marks are seen "at that region's own offset".
use crate::cffi::{self, PagePool};
use crate::common::*;
use crate::recorder::Recorder;
use vm_memory::guest_memory::Error as GErr;
use vm_memory::mmap::MmapRegionBuilder;
use vm_memory::{Bytes, GuestAddress, GuestMemoryRegion, GuestRegionMmap, MemoryRegionAddress, VolatileMemory};

pub const RS: usize = 16; // region size used by the data-path harnesses

pub fn mk_region(pool: &mut PagePool, size: usize, base: u64) -> GuestRegionMmap<Recorder> {
    cffi::small_pages();
    cffi::link();
    // SAFETY: pool outlives the region in every harness; nothing else accesses it meanwhile
    let r = unsafe { MmapRegionBuilder::new_with_bitmap(size, Recorder::new()).with_raw_mmap_pointer(pool.0.as_mut_ptr()) }.build();
    let r = match r {
        Ok(r) => r,
        Err(e) => {
            leak(e);
            panic!("raw region refused")
        }
    };
    match GuestRegionMmap::new(r, GuestAddress(base)) {
        Ok(g) => g,
        Err(e) => {
            leak(e);
            panic!("guest region refused")
        }
    }
}

#[derive(Clone, Copy, PartialEq, Eq)]
pub enum GK {
    InvalidGuestAddress,
    IOError,
    PartialBuffer,
    InvalidBackendAddress,
    HostAddressNotAvailable,
    CallbackOutOfRange,
    GuestAddressOverflow,
}
pub fn gkind(e: &GErr) -> GK {
    match e {
        GErr::InvalidGuestAddress(_) => GK::InvalidGuestAddress,
        GErr::IOError(_) => GK::IOError,
        GErr::PartialBuffer { .. } => GK::PartialBuffer,
        GErr::InvalidBackendAddress => GK::InvalidBackendAddress,
        GErr::HostAddressNotAvailable => GK::HostAddressNotAvailable,
        GErr::CallbackOutOfRange => GK::CallbackOutOfRange,
        GErr::GuestAddressOverflow => GK::GuestAddressOverflow,
    }
}

/// write / read / write_slice / read_slice through the region: count, error, bytes (symbolic index), marks
fn region_rw<const WHICH: u8>() {
    let mut pool = PagePool(kani::any());
    let before = pool.0;
    let base: u64 = kani::any();
    kani::assume(base <= u64::MAX - RS as u64);
    let g = mk_region(&mut pool, RS, base);
    let loc: [u8; 12] = kani::any();
    let mut out = loc;
    let ll: usize = kani::any();
    kani::assume(ll <= 12);
    let addr: u64 = kani::any();
    let which: u8 = WHICH;
    let exp_n = if ll == 0 || addr >= RS as u64 { 0 } else { core::cmp::min(ll, RS - addr as usize) };
    let a = MemoryRegionAddress(addr);
    let is_write = which == 0 || which == 2;
    match which {
        0 => {
            let r = g.write(&loc[..ll], a);
            match &r {
                Ok(n) => assert!(*n == exp_n && (ll == 0 || addr < RS as u64)),
                Err(e) => assert!(ll > 0 && addr >= RS as u64 ),
            }
            leak(r);
        }
        1 => {
            let r = g.read(&mut out[..ll], a);
            match &r {
                Ok(n) => assert!(*n == exp_n && (ll == 0 || addr < RS as u64)),
                Err(e) => assert!(ll > 0 && addr >= RS as u64 ),
            }
            leak(r);
        }
        2 => {
            let r = g.write_slice(&loc[..ll], a);
            match &r {
                Ok(()) => assert!(exp_n == ll),
                Err(GErr::PartialBuffer { expected, completed }) => assert!(exp_n < ll && *expected == ll && *completed == exp_n && addr < RS as u64),
                Err(e) => assert!(ll > 0 && addr >= RS as u64 ),
            }
            leak(r);
        }
        _ => {
            let r = g.read_slice(&mut out[..ll], a);
            match &r {
                Ok(()) => assert!(exp_n == ll),
                Err(GErr::PartialBuffer { expected, completed }) => assert!(exp_n < ll && *expected == ll && *completed == exp_n && addr < RS as u64),
                Err(e) => assert!(ll > 0 && addr >= RS as u64 ),
            }
            leak(r);
        }
    }
    kani::cover!(exp_n > 8);
    kani::cover!(exp_n > 0 && exp_n < ll);
    kani::cover!(ll > 0 && addr == RS as u64);
    kani::cover!(ll > 0 && addr > u32::MAX as u64);
    // marks: at the region's own offset, exactly the bytes written; reads mark nothing
    {
        let rec = g.bitmap();
        if is_write && exp_n > 0 {
            assert!(rec.all_within(addr as usize, exp_n));
            let j: usize = kani::any();
            kani::assume(j < exp_n);
            assert!(rec.covers(addr as usize + j));
        } else {
            assert!(rec.is_clean());
        }
    }
    core::mem::forget(g);
    let i: usize = kani::any();
    kani::assume(i < 64);
    let au = addr as usize;
    let inside = is_write && exp_n > 0 && i >= au && i - au < exp_n;
    if inside {
        assert!(pool.0[i] == loc[i - au]);
    } else {
        assert!(pool.0[i] == before[i]);
    }
    if !is_write {
        let k: usize = kani::any();
        kani::assume(k < 12);
        if k < exp_n {
            assert!(out[k] == before[addr as usize + k]);
        } else {
            assert!(out[k] == loc[k]);
        }
    }
}

#[kani::proof]
#[kani::unwind(10)]
fn region_write() {
    region_rw::<0>()
}
#[kani::proof]
#[kani::unwind(10)]
fn region_read() {
    region_rw::<1>()
}
#[kani::proof]
#[kani::unwind(10)]
fn region_write_slice() {
    region_rw::<2>()
}
#[kani::proof]
#[kani::unwind(10)]
fn region_read_slice() {
    region_rw::<3>()
}

/// get_slice / get_host_address / as_volatile_slice of the region: inside the region, at the right host address,
/// bitmap sliced at the region offset
#[kani::proof]
#[kani::unwind(4)]
fn region_get_slice_host_address() {
    let mut pool = PagePool([0u8; 64]);
    let pbase = pool.0.as_ptr() as usize;
    let size: usize = kani::any();
    kani::assume(size >= 1 && size <= 64);
    let base: u64 = kani::any();
    kani::assume(base <= u64::MAX - size as u64);
    let g = mk_region(&mut pool, size, base);
    let off: u64 = kani::any();
    let cnt: usize = kani::any();
    let exact = off as u128 + cnt as u128;
    let r = g.get_slice(MemoryRegionAddress(off), cnt);
    match &r {
        Ok(s) => {
            assert!(exact <= size as u128);
            let (a, l) = extent(s);
            assert!(a == pbase + off as usize && l == cnt);
            // the slice's bitmap is the region's bitmap shifted by the region offset
            use vm_memory::bitmap::Bitmap;
            s.bitmap().mark_dirty(0, 1);
            assert!(g.bitmap().covers(off as usize));
            assert!(g.bitmap().all_within(off as usize, 1));
        }
        Err(e) => {
            assert!(exact > size as u128);
        }
    }
    kani::cover!(r.is_ok() && cnt > 0 && off > 0);
    kani::cover!(r.is_ok() && exact == size as u128 && cnt == 0);
    kani::cover!(r.is_err() && exact == size as u128 + 1);
    kani::cover!(r.is_err() && off == u64::MAX);
    leak(r);
    let r = g.get_host_address(MemoryRegionAddress(off));
    match &r {
        Ok(p) => assert!(off < size as u64 && *p as usize == pbase + off as usize),
        Err(e) => assert!(off >= size as u64 ),
    }
    kani::cover!(r.is_ok() && off == size as u64 - 1);
    leak(r);
    let r = GuestMemoryRegion::as_volatile_slice(&g);
    match &r {
        Ok(s) => {
            let (a, l) = extent(s);
            assert!(a == pbase && l == size);
        }
        Err(_) => assert!(false),
    }
    leak(r);
    assert!(g.len() == size as u64 && g.start_addr() == GuestAddress(base));
    assert!(g.last_addr() == GuestAddress(base + size as u64 - 1));
    core::mem::forget(g);
}
