//! Model of the Xen ioctl entry point (`vmm_sys_util::ioctl::ioctl_with_ref`, a generic Rust function, replaced with a
//! Kani stub): logs every request and, for the gntdev map request, hands out the "index" (file offset for the
//! subsequent mmap) the way the driver does.  Part of the environment contract.
use core::ffi::{c_int, c_ulong};
use std::os::fd::AsRawFd;
use vmm_sys_util::ioctl::{ioctl_expr, _IOC_NONE};

pub const NLOG: usize = 6;
#[derive(Clone, Copy)]
pub struct Ioctl {
    pub fd: c_int,
    pub req: c_ulong,
    /// gntdev map: (count, first domid, first grant reference); gntdev unmap: (count, 0, 0); privcmd: (num, domid, 0)
    pub a: u64,
    pub b: u64,
    pub c: u64,
    /// index handed out (map) / named (unmap)
    pub index: u64,
}
pub static mut LOG: [Ioctl; NLOG] = [Ioctl { fd: 0, req: 0, a: 0, b: 0, c: 0, index: 0 }; NLOG];
pub static mut NL: usize = 0;
/// index the next map request receives
pub static mut NEXT_INDEX: u64 = 0x1000;
pub static mut IOCTL_FAIL: bool = false;

pub fn req_map() -> c_ulong {
    ioctl_expr(_IOC_NONE, 'G' as u32, 0, 24)
}
pub fn req_unmap() -> c_ulong {
    ioctl_expr(_IOC_NONE, 'G' as u32, 1, 16)
}
pub fn req_privcmd() -> c_ulong {
    ioctl_expr(_IOC_NONE, 'P' as u32, 4, 32)
}

pub unsafe fn ioctl_with_ref_stub<F: AsRawFd, T>(fd: &F, req: c_ulong, arg: &T) -> c_int {
    assert!(NL < NLOG, "ioctl log full");
    let p = arg as *const T as *const u8;
    let mut e = Ioctl { fd: fd.as_raw_fd(), req, a: 0, b: 0, c: 0, index: 0 };
    if IOCTL_FAIL {
        crate::cffi::ERRNO = 22;
        LOG[NL] = e;
        NL += 1;
        return -1;
    }
    if req == req_map() {
        // struct ioctl_gntdev_map_grant_ref { u32 count; u32 pad; u64 index; struct { u32 domid; u32 ref; } refs[]; }
        e.a = *(p as *const u32) as u64;
        e.b = *(p.add(16) as *const u32) as u64;
        e.c = *(p.add(20) as *const u32) as u64;
        e.index = NEXT_INDEX;
        *(p.add(8) as *mut u64) = NEXT_INDEX;
        NEXT_INDEX += 0x10_0000;
    } else if req == req_unmap() {
        // struct ioctl_gntdev_unmap_grant_ref { u64 index; u32 count; u32 pad; }
        e.index = *(p as *const u64);
        e.a = *(p.add(8) as *const u32) as u64;
    } else if req == req_privcmd() {
        e.a = *(p as *const u32) as u64;
        e.b = *(p.add(4) as *const u16) as u64;
    }
    LOG[NL] = e;
    NL += 1;
    0
}

pub fn nlog() -> usize {
    unsafe { NL }
}
pub fn log(i: usize) -> Ioctl {
    unsafe { LOG[i] }
}
