//! C19 - address arithmetic reports overflow instead of wrapping.
use vm_memory::{Address, GuestAddress, MemoryRegionAddress};

macro_rules! c19_for {
    ($modname:ident, $T:ident) => {
        mod $modname {
            use super::*;

            #[kani::proof]
            fn add() {
                let a: u64 = kani::any();
                let b: u64 = kani::any();
                let exact = a as u128 + b as u128;
                let fits = exact <= u64::MAX as u128;
                let x = $T::new(a);
                match x.checked_add(b) {
                    Some(r) => assert!(fits && r.raw_value() as u128 == exact),
                    None => assert!(!fits),
                }
                let (w, f) = x.overflowing_add(b);
                assert!(w.raw_value() == a.wrapping_add(b));
                assert!(f == !fits);
                if fits {
                    assert!(x.unchecked_add(b).raw_value() as u128 == exact);
                }
                kani::cover!(fits);
                kani::cover!(!fits);
                kani::cover!(exact == u64::MAX as u128);
                kani::cover!(exact == u64::MAX as u128 + 1);
            }

            #[kani::proof]
            fn sub() {
                let a: u64 = kani::any();
                let b: u64 = kani::any();
                let fits = a >= b;
                let x = $T::new(a);
                match x.checked_sub(b) {
                    Some(r) => assert!(fits && r.raw_value() == a - b),
                    None => assert!(!fits),
                }
                let (w, f) = x.overflowing_sub(b);
                assert!(w.raw_value() == a.wrapping_sub(b));
                assert!(f == !fits);
                match x.checked_offset_from($T::new(b)) {
                    Some(d) => assert!(fits && d == a - b),
                    None => assert!(!fits),
                }
                if fits {
                    assert!(x.unchecked_sub(b).raw_value() == a - b);
                    assert!(x.unchecked_offset_from($T::new(b)) == a - b);
                }
                kani::cover!(fits);
                kani::cover!(!fits);
                kani::cover!(a == b);
                kani::cover!(a.wrapping_add(1) == b);
            }

            #[kani::proof]
            fn align_up() {
                let a: u64 = kani::any();
                let k: u32 = kani::any();
                kani::assume(k < 64);
                let p: u64 = 1u64 << k;
                // least multiple of p that is >= a, in exact arithmetic
                let rem = (a % p) as u128;
                let exact: u128 = if rem == 0 { a as u128 } else { a as u128 + (p as u128 - rem) };
                let fits = exact <= u64::MAX as u128;
                let x = $T::new(a);
                match x.checked_align_up(p) {
                    Some(r) => assert!(fits && r.raw_value() as u128 == exact),
                    None => assert!(!fits),
                }
                // unchecked form: equal to the exact value whenever the intermediate sum fits
                if (a as u128 + (p as u128 - 1)) <= u64::MAX as u128 {
                    assert!(x.unchecked_align_up(p).raw_value() as u128 == exact);
                }
                kani::cover!(fits && rem != 0);
                kani::cover!(!fits);
                kani::cover!(k == 63);
                kani::cover!(k == 0);
                kani::cover!(exact == u64::MAX as u128 + 1);
            }

            #[kani::proof]
            fn bits_and_order() {
                let a: u64 = kani::any();
                let b: u64 = kani::any();
                let x = $T::new(a);
                let y = $T::new(b);
                assert!(x.raw_value() == a);
                assert!($T(a).raw_value() == a);
                assert!(x.mask(b) == (a & b));
                assert!((x & b).raw_value() == (a & b));
                assert!((x | b).raw_value() == (a | b));
                assert!((x == y) == (a == b));
                assert!((x != y) == (a != b));
                assert!((x < y) == (a < b));
                assert!((x <= y) == (a <= b));
                assert!((x > y) == (a > b));
                assert!((x >= y) == (a >= b));
                assert!(x.cmp(&y) == a.cmp(&b));
                assert!(x.partial_cmp(&y) == a.partial_cmp(&b));
                assert!(core::cmp::max(x, y).raw_value() == core::cmp::max(a, b));
                assert!($T::default().raw_value() == 0);
                kani::cover!(a < b);
                kani::cover!(a == b);
                kani::cover!(a > b);
            }
        }
    };
}

c19_for!(guest, GuestAddress);
c19_for!(region, MemoryRegionAddress);
