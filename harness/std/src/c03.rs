//! C03 (E7-L1) - guest memory reads and writes behave like one flat sparse byte array: the real `try_access` and
//! the real blanket `impl Bytes<GuestAddress>` over the contract-level mock (mock.rs).  L2 (the real region
//! satisfies the region contract) is regn.rs, L3 (the real `find_region` is the interval lookup) is c02.rs.
use crate::common::*;
use crate::mock::*;
use crate::regn::{gkind, GK};
use vm_memory::guest_memory::Error as GErr;
use vm_memory::{Bytes, GuestAddress, GuestMemory, GuestMemoryRegion};

const BL: usize = 6; // max buffer length

fn frame_and_bytes(m: &MockMem, pool: &[u8; POOL], before: &[u8; POOL], a: u64, cnt: usize, buf: &[u8], wrote: bool) {
    // symbolic (region, offset): stands for every byte of every region
    let i: usize = kani::any();
    let o: usize = kani::any();
    kani::assume(i < m.n && (o as u64) < m.regions[i].len);
    let ga = m.regions[i].start as u128 + o as u128;
    let inside = wrote && cnt > 0 && ga >= a as u128 && ga - (a as u128) < cnt as u128;
    let got = pool[i * RSZ + o];
    if inside {
        assert!(got == buf[(ga - a as u128) as usize]);
        // dirty in the bitmap of the region that owns it, at that region's own offset
        assert!(m.regions[i].rec.covers(o));
    } else {
        assert!(got == before[i * RSZ + o]);
        assert!(!m.regions[i].rec.covers(o));
    }
}

fn write_body<const NR: usize, const SLICE: bool>() {
    let mut pool: [u8; POOL] = kani::any();
    let before = pool;
    let m = any_layout(&mut pool, NR);
    let buf: [u8; BL] = kani::any();
    let l: usize = kani::any();
    kani::assume(l >= 1 && l <= BL);
    let a: u64 = kani::any();
    let exp = m.run(a, l);
    let mut cnt = 0;
    if !SLICE {
        let r = m.write(&buf[..l], GuestAddress(a));
        match &r {
            Ok(n) => {
                assert!(*n == exp && exp > 0);
                cnt = *n;
            }
            Err(e) => assert!(exp == 0 && matches!(e, GErr::InvalidGuestAddress(x) if x.0 == a)),
        }
        leak(r);
    } else {
        let r = m.write_slice(&buf[..l], GuestAddress(a));
        match &r {
            Ok(()) => {
                assert!(exp == l);
                cnt = l;
            }
            Err(GErr::PartialBuffer { expected, completed }) => {
                assert!(exp > 0 && exp < l && *expected == l && *completed == exp);
                cnt = exp;
            }
            Err(e) => assert!(exp == 0 && gkind(e) == GK::InvalidGuestAddress),
        }
        leak(r);
    }
    kani::cover!(cnt == l && l > 1);
    kani::cover!(cnt > 0 && cnt < l);
    kani::cover!(exp == 0);
    kani::cover!(NR < 2 || (cnt > 1 && m.owner(a as u128) != m.owner(a as u128 + cnt as u128 - 1)));
    frame_and_bytes(&m, &pool, &before, a, cnt, &buf, true);
}

fn read_body<const NR: usize, const SLICE: bool>() {
    let mut pool: [u8; POOL] = kani::any();
    let before = pool;
    let m = any_layout(&mut pool, NR);
    let init: [u8; BL] = kani::any();
    let mut buf = init;
    let l: usize = kani::any();
    kani::assume(l >= 1 && l <= BL);
    let a: u64 = kani::any();
    let exp = m.run(a, l);
    let mut cnt = 0;
    if !SLICE {
        let r = m.read(&mut buf[..l], GuestAddress(a));
        match &r {
            Ok(n) => {
                assert!(*n == exp && exp > 0);
                cnt = *n;
            }
            Err(e) => assert!(exp == 0 && matches!(e, GErr::InvalidGuestAddress(x) if x.0 == a)),
        }
        leak(r);
    } else {
        let r = m.read_slice(&mut buf[..l], GuestAddress(a));
        match &r {
            Ok(()) => {
                assert!(exp == l);
                cnt = l;
            }
            Err(GErr::PartialBuffer { expected, completed }) => {
                assert!(exp > 0 && exp < l && *expected == l && *completed == exp);
                cnt = exp;
            }
            Err(e) => assert!(exp == 0 && gkind(e) == GK::InvalidGuestAddress),
        }
        leak(r);
    }
    kani::cover!(cnt == l && l > 1);
    kani::cover!(cnt > 0 && cnt < l);
    kani::cover!(NR < 2 || (cnt > 1 && m.owner(a as u128) != m.owner(a as u128 + cnt as u128 - 1)));
    // bytes delivered in order from the owning regions; the rest of the buffer untouched
    let j: usize = kani::any();
    kani::assume(j < BL);
    if j < cnt {
        let ga = a as u128 + j as u128;
        let i = m.owner(ga).unwrap();
        let o = (ga - m.regions[i].start as u128) as usize;
        assert!(buf[j] == before[i * RSZ + o]);
    } else {
        assert!(buf[j] == init[j]);
    }
    frame_and_bytes(&m, &pool, &before, a, 0, &init, false);
}

macro_rules! rw {
    ($m:ident, $NR:expr) => {
        mod $m {
            #[kani::proof]
            fn write() {
                super::write_body::<{ $NR }, false>()
            }
            #[kani::proof]
            fn write_slice() {
                super::write_body::<{ $NR }, true>()
            }
            #[kani::proof]
            fn read() {
                super::read_body::<{ $NR }, false>()
            }
            #[kani::proof]
            fn read_slice() {
                super::read_body::<{ $NR }, true>()
            }
        }
    };
}
rw!(r1, 1);
rw!(r2, 2);
rw!(r3, 3);


/// two-step history: a buffer write at `a`, then an object read at `b` through a different route; the value read
/// is what the flat model holds after the write ("what was written is what is later read back, through any route")
fn write_then_read_obj<const NR: usize>() {
    let mut pool: [u8; POOL] = kani::any();
    let before = pool;
    let m = any_layout(&mut pool, NR);
    let buf: [u8; BL] = kani::any();
    let l: usize = kani::any();
    kani::assume(l >= 1 && l <= BL);
    let a: u64 = kani::any();
    let cnt = match m.write(&buf[..l], GuestAddress(a)) {
        Ok(n) => n,
        Err(e) => {
            leak(e);
            0
        }
    };
    assert!(cnt == m.run(a, l));
    let b: u64 = kani::any();
    let r = m.read_obj::<u16>(GuestAddress(b));
    let avail = m.run(b, 2);
    match &r {
        Ok(v) => {
            assert!(avail == 2);
            let got = v.to_le_bytes();
            let k: usize = kani::any();
            kani::assume(k < 2);
            let ga = b as u128 + k as u128;
            let want = if cnt > 0 && ga >= a as u128 && ga - (a as u128) < cnt as u128 {
                buf[(ga - a as u128) as usize]
            } else {
                let i = m.owner(ga).unwrap();
                before[i * RSZ + (ga - m.regions[i].start as u128) as usize]
            };
            assert!(got[k] == want);
        }
        Err(GErr::PartialBuffer { expected, completed }) => assert!(avail == 1 && *expected == 2 && *completed == 1),
        Err(e) => assert!(avail == 0 && gkind(e) == GK::InvalidGuestAddress),
    }
    kani::cover!(r.is_ok() && cnt > 0 && b > a && b - a < cnt as u64); // reads back freshly written bytes
    kani::cover!(r.is_ok() && cnt > 0 && b + 1 == a); // straddles the start of the written range
    kani::cover!(matches!(r, Err(GErr::PartialBuffer { .. })));
    leak(r);
}
mod hist {
    #[kani::proof]
    fn r1_write_then_read_obj() {
        super::write_then_read_obj::<1>()
    }
    #[kani::proof]
    fn r2_write_then_read_obj() {
        super::write_then_read_obj::<2>()
    }
}
