#!/bin/bash
# run every quick check once on /repo, sequentially, recording exit status and wall time
cd /verif
: > work/runall.log
for p in C19 C20 C01 C04 C05 C16 C09 C06 C17 C18 C03 C02 C10 C12 C15 C13 C14 C08 C07; do
  s=$(date +%s)
  ./vmverif check $p --tier quick > work/runall.$p.out 2>&1
  rc=$?
  e=$(date +%s)
  echo "$p rc=$rc wall=$((e-s))s $(grep SUMMARY work/runall.$p.out | tail -1)" >> work/runall.log
done
