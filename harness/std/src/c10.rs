//! C10 - adding or removing a region yields a new valid map and leaves the old one intact.
//! One inductive step (one insert or one remove with symbolic arguments) from an arbitrary valid map of 1-2 regions,
//! one question per query (E10).
use crate::c02::{real_map, Lay};
use crate::cffi::{self, PagePool};
use crate::common::*;
use crate::stdstubs::*;
use std::sync::Arc;
use vm_memory::mmap::{Error as MErr, MmapRegionBuilder};
use vm_memory::{GuestAddress, GuestMemory, GuestMemoryMmap, GuestMemoryRegion, GuestRegionMmap};

fn raw_region(pool: &mut PagePool, base: u64, size: u64) -> Result<GuestRegionMmap<()>, MErr> {
    cffi::small_pages();
    cffi::link();
    // SAFETY: never dereferenced
    let r = unsafe { MmapRegionBuilder::<()>::new(size as usize).with_raw_mmap_pointer(pool.0.as_mut_ptr()) }.build();
    match r {
        Ok(r) => GuestRegionMmap::new(r, GuestAddress(base)),
        Err(e) => Err(MErr::MmapRegion(e)),
    }
}

/// a region whose end would exceed the address space is refused at creation
#[kani::proof]
fn new_region_refuses_overflow() {
    let mut pool = PagePool([0u8; 64]);
    let base: u64 = kani::any();
    let size: u64 = kani::any();
    let r = raw_region(&mut pool, base, size);
    let overflow = base as u128 + size as u128 > u64::MAX as u128;
    match &r {
        Ok(g) => assert!(!overflow && g.start_addr().0 == base && g.len() == size),
        Err(e) => assert!(overflow && matches!(e, MErr::InvalidGuestRegion)),
    }
    kani::cover!(r.is_ok() && base as u128 + size as u128 == u64::MAX as u128);
    kani::cover!(r.is_err() && base as u128 + size as u128 == u64::MAX as u128 + 1);
    core::mem::forget(r);
}

fn from_regions_body<const NR: usize, const ARC: bool>() {
    let mut pool = PagePool([0u8; 64]);
    let mut base = [0u64; 3];
    let mut size = [1u64; 3];
    let mut v: Vec<GuestRegionMmap<()>> = Vec::with_capacity(NR);
    let mut i = 0;
    while i < NR {
        base[i] = kani::any();
        size[i] = kani::any();
        kani::assume(size[i] >= 1 && base[i] as u128 + size[i] as u128 <= u64::MAX as u128);
        match raw_region(&mut pool, base[i], size[i]) {
            Ok(g) => v.push(g),
            Err(e) => {
                leak(e);
                assert!(false);
            }
        }
        i += 1;
    }
    let r = if ARC {
        let mut av = Vec::with_capacity(NR);
        let mut k = 0;
        while k < NR {
            av.push(Arc::new(v.remove(0)));
            k += 1;
        }
        GuestMemoryMmap::from_arc_regions(av)
    } else {
        GuestMemoryMmap::from_regions(v)
    };
    let mut any_unsorted = false;
    let mut any_overlap = false;
    let mut w = 0;
    while w + 1 < NR {
        if base[w] > base[w + 1] {
            any_unsorted = true;
        }
        if base[w] + (size[w] - 1) >= base[w + 1] {
            any_overlap = true;
        }
        w += 1;
    }
    match &r {
        Ok(m) => {
            assert!(NR >= 1 && !any_unsorted && !any_overlap);
            assert!(m.num_regions() == NR);
            // the map lists exactly the given regions in order
            let k: usize = kani::any();
            kani::assume(k < NR);
            let mut it = m.iter();
            let mut idx = 0;
            while idx < 3 {
                if idx <= k {
                    let g = it.next();
                    if idx == k {
                        match g {
                            Some(g) => assert!(g.start_addr().0 == base[k] && g.len() == size[k]),
                            None => assert!(false),
                        }
                    }
                }
                idx += 1;
            }
        }
        Err(e) => match e {
            MErr::NoMemoryRegion => assert!(NR == 0),
            MErr::UnsortedMemoryRegions => assert!(any_unsorted),
            MErr::MemoryRegionOverlap => assert!(any_overlap),
            _ => assert!(false),
        },
    }
    kani::cover!(NR == 0 || r.is_ok());
    kani::cover!(NR < 2 || (r.is_ok() && base[0] + size[0] == base[1])); // exact adjacency accepted
    kani::cover!(NR < 2 || (r.is_err() && base[0] + size[0] - 1 == base[1])); // one-byte overlap
    kani::cover!(NR < 2 || (r.is_err() && base[0] == base[1])); // duplicate starts
    kani::cover!(NR < 2 || matches!(r, Err(MErr::UnsortedMemoryRegions)));
    core::mem::forget(r);
}

#[kani::proof]
#[kani::stub(alloc::vec::Vec::remove, vec_remove_stub)]
fn from_regions_0() {
    from_regions_body::<0, false>()
}
#[kani::proof]
#[kani::stub(alloc::vec::Vec::remove, vec_remove_stub)]
fn from_regions_1() {
    from_regions_body::<1, false>()
}
#[kani::proof]
#[kani::stub(alloc::vec::Vec::remove, vec_remove_stub)]
fn from_regions_2() {
    from_regions_body::<2, false>()
}
#[kani::proof]
#[kani::stub(alloc::vec::Vec::remove, vec_remove_stub)]
fn from_arc_regions_2() {
    from_regions_body::<2, true>()
}
#[kani::proof]
#[kani::stub(alloc::vec::Vec::remove, vec_remove_stub)]
fn from_arc_regions_3() {
    from_regions_body::<3, true>()
}

fn lay_overlaps(l: &Lay, base: u64, size: u64) -> bool {
    let mut r = false;
    let mut i = 0;
    while i < 3 {
        if i < l.n {
            let a0 = l.base[i] as u128;
            let a1 = a0 + l.size[i] as u128;
            let b0 = base as u128;
            let b1 = b0 + size as u128;
            if a0 < b1 && b0 < a1 {
                r = true;
            }
        }
        i += 1;
    }
    r
}

type Map = GuestMemoryMmap<()>;
type Reg = GuestRegionMmap<()>;

/// Arbitrary valid map of $NR regions, built INLINE in the harness: moving the map through a helper's
/// `Option<..>` return value made CBMC run out of memory on every later operation (measured: 11 s vs > 18 GB).
macro_rules! old_map {
    ($NR:expr, $pool:ident, $old:ident, $l:ident) => {
        cffi::small_pages();
        cffi::link();
        let host = $pool.0.as_mut_ptr();
        let mut $l = Lay { n: $NR, base: [0; 3], size: [1; 3], host: [host; 3] };
        let Some((a0, b0, s0)) = crate::c02::one_region(host, u64::MAX) else { return };
        $l.base[0] = b0;
        $l.size[0] = s0;
        let v = if $NR == 1 {
            vec![a0]
        } else {
            let Some((a1, b1, s1)) = crate::c02::one_region(host, u64::MAX) else { return };
            $l.base[1] = b1;
            $l.size[1] = s1;
            if $NR == 2 {
                vec![a0, a1]
            } else {
                let Some((a2, b2, s2)) = crate::c02::one_region(host, u64::MAX) else { return };
                $l.base[2] = b2;
                $l.size[2] = s2;
                vec![a0, a1, a2]
            }
        };
        let $old: Map = match GuestMemoryMmap::from_arc_regions(v) {
            Ok(m) => m,
            Err(e) => {
                leak(e);
                return;
            }
        };
    };
}

/// one insert_region with a symbolic new region
macro_rules! insert_step {
    ($NR:expr, $old:ident, $l:ident, $nb:ident, $ns:ident, $newp:ident, $clash:ident, $r:ident) => {
        let mut p1 = PagePool([0u8; 64]);
        let mut p2 = PagePool([0u8; 64]);
        old_map!($NR, p1, $old, $l);
        let $nb: u64 = kani::any();
        let $ns: u64 = kani::any();
        kani::assume($ns >= 1 && $nb as u128 + $ns as u128 <= u64::MAX as u128);
        let newr = match raw_region(&mut p2, $nb, $ns) {
            Ok(g) => Arc::new(g),
            Err(e) => {
                leak(e);
                assert!(false);
                return;
            }
        };
        let $newp = Arc::as_ptr(&newr);
        let $r = $old.insert_region(newr);
        let $clash = lay_overlaps(&$l, $nb, $ns);
    };
}

fn insert_result<const NR: usize>() {
    insert_step!(NR, old, l, nb, ns, newp, clash, r);
    match &r {
        Ok(m) => {
            assert!(!clash);
            assert!(m.num_regions() == NR + 1);
        }
        Err(e) => assert!(clash && matches!(e, MErr::MemoryRegionOverlap)),
    }
    kani::cover!(r.is_ok() && nb < l.base[0]);
    kani::cover!(r.is_ok() && nb > l.base[NR - 1]);
    kani::cover!(NR < 2 || (r.is_ok() && nb > l.base[0] && nb < l.base[1]));
    kani::cover!(r.is_err() && nb + (ns - 1) == l.base[0]); // one-byte overlap
    kani::cover!(r.is_err() && nb == l.base[0]); // duplicate start
    kani::cover!(r.is_ok() && nb + ns == l.base[0]); // exact adjacency
    core::mem::forget(r);
    core::mem::forget(old);
}

fn insert_find_new<const NR: usize>() {
    insert_step!(NR, old, l, nb, ns, newp, clash, r);
    let a: u64 = kani::any();
    let in_new = a >= nb && a - nb < ns;
    if let Ok(m) = &r {
        match (m.find_region(GuestAddress(a)), l.owner(a as u128)) {
            (Some(g), _) if in_new => assert!(g as *const _ == newp && g.start_addr().0 == nb && g.len() == ns),
            (Some(g), Some(i)) => assert!(g.start_addr().0 == l.base[i] && g.len() == l.size[i]),
            (None, None) => assert!(!in_new),
            _ => assert!(false),
        }
    }
    kani::cover!(r.is_ok() && in_new);
    kani::cover!(r.is_ok() && !in_new && l.owner(a as u128).is_some());
    kani::cover!(r.is_ok() && !in_new && l.owner(a as u128).is_none());
    core::mem::forget(r);
    core::mem::forget(old);
}

fn insert_find_old<const NR: usize>() {
    insert_step!(NR, old, l, nb, ns, newp, clash, r);
    // the map it was derived from keeps describing the same memory
    assert!(old.num_regions() == NR);
    let a: u64 = kani::any();
    match (old.find_region(GuestAddress(a)), l.owner(a as u128)) {
        (Some(g), Some(i)) => assert!(g.start_addr().0 == l.base[i] && g.len() == l.size[i]),
        (None, None) => {}
        _ => assert!(false),
    }
    kani::cover!(r.is_ok() && a >= nb && a - nb < ns);
    kani::cover!(r.is_err());
    core::mem::forget(r);
    core::mem::forget(old);
}

macro_rules! remove_step {
    ($NR:expr, $old:ident, $l:ident, $rb:ident, $hit:ident, $r:ident) => {
        let mut p1 = PagePool([0u8; 64]);
        old_map!($NR, p1, $old, $l);
        let $rb: u64 = kani::any();
        let rs: u64 = kani::any();
        let mut $hit = None;
        let mut i = 0;
        while i < 3 {
            if i < $NR && $l.base[i] == $rb && $l.size[i] == rs {
                $hit = Some(i);
            }
            i += 1;
        }
        let $r = $old.remove_region(GuestAddress($rb), rs);
    };
}

fn remove_result<const NR: usize>() {
    remove_step!(NR, old, l, rb, hit, r);
    match (&r, hit) {
        (Ok((m, g)), Some(i)) => {
            assert!(m.num_regions() == NR - 1);
            assert!(g.start_addr().0 == l.base[i] && g.len() == l.size[i]);
            // the very same region object (ownership moves, nothing is re-created)
            match old.find_region(GuestAddress(rb)) {
                Some(o) => assert!(o as *const _ == Arc::as_ptr(g)),
                None => assert!(false),
            }
        }
        (Err(e), None) => assert!(matches!(e, MErr::InvalidGuestRegion)),
        _ => assert!(false),
    }
    kani::cover!(r.is_ok() && hit == Some(NR - 1));
    kani::cover!(r.is_ok() && hit == Some(0));
    kani::cover!(r.is_err() && l.owner(rb as u128).is_some() && rb != l.base[0]); // non-start address
    kani::cover!(r.is_err() && rb == l.base[0]); // wrong size
    core::mem::forget(r);
    core::mem::forget(old);
}

fn remove_find_new<const NR: usize>() {
    remove_step!(NR, old, l, rb, hit, r);
    let a: u64 = kani::any();
    if let (Ok((m, _)), Some(h)) = (&r, hit) {
        let own = match l.owner(a as u128) {
            Some(i) if i != h => Some(i),
            _ => None,
        };
        match (m.find_region(GuestAddress(a)), own) {
            (Some(g), Some(i)) => assert!(g.start_addr().0 == l.base[i] && g.len() == l.size[i]),
            (None, None) => {}
            _ => assert!(false),
        }
    }
    kani::cover!(r.is_ok() && l.owner(a as u128) == hit);
    kani::cover!(NR < 2 || (r.is_ok() && l.owner(a as u128).is_some() && l.owner(a as u128) != hit));
    core::mem::forget(r);
    core::mem::forget(old);
}

fn remove_find_old<const NR: usize>() {
    remove_step!(NR, old, l, rb, hit, r);
    assert!(old.num_regions() == NR);
    let a: u64 = kani::any();
    match (old.find_region(GuestAddress(a)), l.owner(a as u128)) {
        (Some(g), Some(i)) => assert!(g.start_addr().0 == l.base[i] && g.len() == l.size[i]),
        (None, None) => {}
        _ => assert!(false),
    }
    kani::cover!(r.is_ok() && hit.is_some() && l.owner(a as u128) == hit);
    core::mem::forget(r);
    core::mem::forget(old);
}

macro_rules! step {
    ($name:ident, $body:ident, $NR:expr) => {
        #[kani::proof]
        #[kani::stub(alloc::slice::stable_sort, stable_sort_stub)]
        #[kani::stub(alloc::vec::Vec::remove, vec_remove_stub)]
        fn $name() {
            $body::<{ $NR }>()
        }
    };
}
step!(insert1_result, insert_result, 1);
step!(insert1_find_new, insert_find_new, 1);
step!(insert1_find_old, insert_find_old, 1);
step!(insert2_result, insert_result, 2);
step!(insert2_find_new, insert_find_new, 2);
step!(insert2_find_old, insert_find_old, 2);
step!(remove1_result, remove_result, 1);
step!(remove2_result, remove_result, 2);
step!(remove2_find_new, remove_find_new, 2);
step!(remove2_find_old, remove_find_old, 2);
step!(remove3_result, remove_result, 3);
step!(remove3_find_new, remove_find_new, 3);

