"""Table of checks: property -> groups of Kani harnesses (see DESIGN.md §2/§4).

A group is one `cargo kani` invocation: harness filters (prefix match on the harness path) for the
quick tier, extra filters for the thorough tier, parallelism, per-process memory cap (ulimit -v),
per-harness timeout.  `stubbed` = the harness relies on Kani stubs / c-ffi models, so a
counterexample cannot be replayed natively (DESIGN §1.5b).
"""

CRATES = ["std", "xen"]

COMMON_ASSUMPTIONS = [
    "Kani 0.68 / CBMC 6.11 / CaDiCaL are sound for the goto program they are given; Kani's model of the Rust std it compiles (nightly-2026-08-21) is faithful",
    "bounded claim: holds for all values of the symbolic inputs within the stated bounds, nothing is claimed outside them",
    "sequentially consistent, single-threaded execution model (CBMC); compiler code generation and hardware atomicity are outside the claim",
]

# Failed checks that are artefacts of the engine's memory model, not behaviours of the code (DESIGN.md §1.7).  A failed check
# matching one of these (function regex AND description regex) is dropped before classification; everything else counts.
ENGINE_ARTEFACTS = [
    {"id": "zst-memset",
     "function": r"^std::ptr::write_bytes::<\[[a-z0-9]+; 0\]>$",
     "description": r"memset destination region writeable",
     "why": "MaybeUninit::<[T;0]>::zeroed() (ByteValued::zeroed) is a write_bytes of 0 bytes through a dangling, aligned pointer - "
            "defined behaviour in Rust; CBMC's memset precondition demands a writable object even for size 0"},
]

# per-loop unwind bounds (regex on the mangled loop id -> bound), used by the `unwindset` groups
_MOCK_RULES = [
    [r"11find_region", 4], [r"10try_access", 5], [r"MockMem5owner", 4], [r"MockMem3run", 9], [r"c03.*write_then_read_obj", 4], [r"any_layout", 4],
    [r"10MockRegion.*(5write|4read)\.", 8],
    [r"19copy_slice_volatile", 9],
]

_C02_RULES = _MOCK_RULES + [
    [r"c023Lay5owner", 4], [r"c023Lay8max_last", 4], [r"c023Lay12range_mapped", 4], [r"c028real_map", 5], [r"c028mock_map", 4], [r"c0210one_region", 4],
    [r"binary_search_by", 4], [r"16from_arc_regions", 4], [r"GuestMemoryMmap.*4iter", 5], [r"4fold", 5], [r"Windows", 4],
]

_C10_RULES = _C02_RULES + [
    [r"stable_sort_stub", 5], [r"vec_remove_stub", 4], [r"c1012lay_overlaps", 4], [r"c10.*from_regions_body", 5], [r"c10.*remove_step", 4],
    [r"5clone", 5], [r"Drain", 5], [r"from_iter", 5], [r"extend", 5], [r"to_vec", 5], [r"9try_fold", 5],
]

_C14_RULES = _MOCK_RULES + [
    [r"Script9from_code", 5], [r"c1411model_exact", 5], [r"c1410model_upto", 5], [r"guest_read_body", 5],
    [r"3c14.*6Script.*12ReadVolatile13read_volatile", 7], [r"3c14.*6Script.*13WriteVolatile14write_volatile", 7],
    [r"19read_exact_volatile", 5], [r"18write_all_volatile", 5], [r"18read_volatile_from", 5], [r"17write_volatile_to", 5],
    [r"24read_exact_volatile_from", 5], [r"21write_all_volatile_to", 5],
]

_XEN_RULES = [
    [r"^mmap\.0", 5], [r"^munmap\.0", 5], [r"cffi10live_count", 5],
    [r"10mmap_ioctl", 3], [r"17GntDevMapGrantRef3new", 3], [r"from_elem", 3], [r"FamStructWrapper", 3], [r"extend_with", 3],
    [r"copy_slice_volatile", 9], [r"x17.*check_window", 4],
]

PROPS = {}

PROPS["C19"] = {
    "groups": [
        {"crate": "std", "quick": ["c19::"], "jobs": 8, "mem_gb": 6, "timeout_s": 300},
    ],
    "bounds": "none on the inputs: both operands unconstrained u64, alignment 1<<k for every k in 0..=63; "
              "instantiations GuestAddress and MemoryRegionAddress",
    "outside": "alignments that are not powers of two (documented panic)",
    "assumptions": ["oracle is 128-bit exact arithmetic written in the harness"],
}

PROPS["C20"] = {
    "groups": [
        {"crate": "std", "quick": ["c20::"], "jobs": 8, "mem_gb": 6, "timeout_s": 300},
    ],
    "bounds": "none on the values: full 16/32/64-bit range for all eight wrapper types; host = Kani target x86_64 (little endian)",
    "outside": "big-endian hosts",
    "assumptions": ["oracle is std's to_le_bytes/to_be_bytes"],
}

PROPS["C01"] = {
    "groups": [
        {"crate": "std", "quick": ["c01::"], "jobs": 16, "mem_gb": 6, "timeout_s": 600},
        # regions: the standard build's MmapRegion / GuestRegionMmap (raw-pointer region) and the Xen build's MmapRegion
        {"crate": "std", "quick": ["regn::region_get_slice"], "jobs": 2, "mem_gb": 8, "timeout_s": 600, "stubbed": True},
        {"crate": "xen", "quick": ["x01::unix_region_get_slice"], "jobs": 2, "mem_gb": 10, "timeout_s": 900, "stubbed": True, "kani_flags": ["-Z", "restrict-vtable"]},
    ],
    "bounds": "parent = every window (offset, length) of a 32-byte 8-aligned buffer (all base alignments mod 8, lengths 0..=32); "
              "request arguments (offset, count, n, index, mid) unconstrained usize; element types u8,u16,u32,u64,u128,[u8;3],[u16;2],Le32; "
              "atomic types AtomicU8/16/32/64; one derivation step per query (inductive step for chains of any depth)",
    "outside": "parents larger than 32 bytes (same code, same full-width operands, smaller allocation)",
    "assumptions": ["ref_at index assumed < len (documented program-logic panic)"],
}

PROPS["C04"] = {
    "groups": [
        {"crate": "std", "quick": ["c04::"], "jobs": 16, "mem_gb": 6, "timeout_s": 900},
        # the other container kind: a mapped region (real GuestRegionMmap over a raw-pointer MmapRegion)
        {"crate": "std", "quick": ["regn::region_"], "jobs": 6, "mem_gb": 10, "timeout_s": 900, "stubbed": True},
    ],
    "bounds": "container = every window (offset, length) of a 16-byte 8-aligned buffer with symbolic contents; addr/offset/count/index unconstrained usize; "
              "local byte buffers: every window of a 16-byte buffer with length <= 12 (both sides of the 8-byte volatile-copy threshold, every alignment); "
              "element arrays of <= 4 elements; object types u8,u16,u32,u64,u128,[u8;3],[u16;2],Le32,Be64; atomic types u8,u16,u32,u64,i32,usize; "
              "frame check = one symbolic byte index per query (stands for all bytes); one operation from an arbitrary memory state per query",
    "outside": "containers larger than 16 bytes and transfers longer than 12 bytes (bulk branch = copy_nonoverlapping, exercised for 9..=12 bytes)",
    "assumptions": ["route agreement is by composition: every read route returns exactly the bytes in memory from an arbitrary state, every write route sets exactly its bytes"],
}

_VS_BOUNDS = ("slice level: container = every window of a 16-byte 8-aligned buffer carrying RefSlice<Recorder> at a symbolic root offset "
              "(<= usize::MAX/2) so that marks arrive at the root through the real BaseSlice chain; same operations/arguments as C04")

PROPS["C05"] = {
    "groups": [
        {"crate": "std", "quick": ["c05::"], "jobs": 16, "mem_gb": 6, "timeout_s": 900},
        # (b) page arithmetic of the real AtomicBitmap, (c) end-to-end with the real bitmap, region level with the recording bitmap
        {"crate": "std", "quick": ["c05e::", "c09::q_p3_s4::set_range", "c09::q_p7_s64::set_range", "c09::q_p4096_w1p_short::set_range", "c09::q_p7_s64::slices", "regn::region_write"],
         "jobs": 12, "mem_gb": 8, "timeout_s": 900, "stubbed": True},
        # guest-memory level: bytes written through try_access are marked in the bitmap of the region that owns them, at that
        # region's own offset, and nothing else is (c03::frame_and_bytes asserts both directions)
        {"crate": "std", "quick": ["c03::r1::write"], "thorough": ["c03::r2::write"], "jobs": 4, "mem_gb": 10, "timeout_s": 1200, "timeout_thorough_s": 3600,
         "unwindset": {"default": 5, "rules": _MOCK_RULES}},
    ],
    "bounds": _VS_BOUNDS + "; (b)/(c): real AtomicBitmap, page sizes 1,3,4,5,7,8,16,4096 as grid points, byte ranges unconstrained; region level: 16-byte raw-pointer region",
    "outside": "writes through raw pointers / references obtained from the library (exempt by the statement)",
    "assumptions": ["Recorder (harness/std/src/recorder.rs) is a Bitmap that logs mark_dirty(offset,len) calls; it sits behind the crate's real BaseSlice"],
}

PROPS["C16"] = {
    "groups": [
        {"crate": "std", "quick": ["c16::"], "jobs": 16, "mem_gb": 6, "timeout_s": 900},
        {"crate": "std", "quick": ["c05e::", "c09::q_p3_s4::set_range", "c09::q_p7_s64::set_range", "c09::q_p4096_w1p_short::set_range", "c09::q_p1_s2::set_range", "regn::region_"],
         "jobs": 12, "mem_gb": 8, "timeout_s": 900, "stubbed": True},
        # guest-memory level: bytes written through try_access are marked in the bitmap of the region that owns them, at that
        # region's own offset, and nothing else is (c03::frame_and_bytes asserts both directions)
        {"crate": "std", "quick": ["c03::r1::write"], "thorough": ["c03::r2::write"], "jobs": 4, "mem_gb": 10, "timeout_s": 1200, "timeout_thorough_s": 3600,
         "unwindset": {"default": 5, "rules": _MOCK_RULES}},
    ],
    "bounds": _VS_BOUNDS + "; (b)/(c): real AtomicBitmap, page sizes 1,3,4,5,7,8,16,4096 as grid points, byte ranges unconstrained; region level: 16-byte raw-pointer region (reads mark nothing)",
    "outside": "",
    "assumptions": ["'rejected' = rejected before any byte moved; all-or-error forms failing with PartialBuffer have written and must have marked exactly the completed prefix"],
}

PROPS["C09"] = {
    "groups": [
        {"crate": "std", "quick": ["c09::q_"], "thorough": ["c09::t_"], "jobs": 16, "mem_gb": 8, "timeout_s": 900, "timeout_thorough_s": 2400},
    ],
    "bounds": "grid of concrete (page size, byte size): quick = page 1/3/7/4096 with 0,1,2,10 pages (unrestricted 64-bit ranges) and 64/65/129-page bitmaps "
              "with ranges of <= 3 pages starting anywhere in the 64-bit space; thorough adds 33/64/65-page bitmaps with unrestricted ranges. "
              "Pre-state = three symbolic pages set; one operation with unconstrained arguments; read-out at a symbolic page index and byte address; "
              "enlarge by 1 byte / by one page; slices of depth 1 and 2 with unconstrained (wrapping) offsets",
    "outside": "bitmaps larger than 129 pages; arbitrary pre-states with more than three marked pages; symbolic page/byte sizes (container shapes are grid points)",
    "assumptions": [],
}

PROPS["C06"] = {
    "groups": [
        {"crate": "std", "quick": ["c06::"], "jobs": 16, "mem_gb": 8, "timeout_s": 900, "stubbed": True},
    ],
    "bounds": "transfer length 0..=8; guest and local addresses at every offset of 16-byte 8-aligned buffers (every address mod 8 on both sides); "
              "entry points at slice level: write, write_slice, read, read_slice, copy_from/copy_to (1-byte elements), read_volatile_from(&[u8]), "
              "write_volatile_to(&mut [u8]), write_obj/read_obj for u8,u16,u32,u64,i64, store/load for u8,u16,u32,u64,usize",
    "outside": "that one naturally aligned volatile access of <= 8 bytes is emitted as one instruction and is single-copy atomic on the hardware; "
               "the 'schedules' half (old-or-new under a concurrent writer) follows from that hardware fact and is not decided here; transfers > 8 bytes",
    "assumptions": ["Kani stubs (harness/std/src/trace.rs) replace core::ptr::read_volatile/write_volatile and core::sync::atomic::atomic_load/atomic_store by logging versions that perform the plain access"],
}

PROPS["C17"] = {
    "groups": [
        {"crate": "std", "quick": ["c17::"], "jobs": 8, "mem_gb": 6, "timeout_s": 600},
        # (b) Xen build: on-demand grant regions
        {"crate": "xen", "quick": ["x17::ondemand_write", "x17::ondemand_atomic_store", "x17::ub_null_base_add"], "thorough": ["x17::ondemand_obj"], "jobs": 1, "mem_gb": 40, "timeout_s": 1800, "stubbed": True,
         "kani_flags": ["-Z", "restrict-vtable"], "unwindset": {"default": 1, "rules": _XEN_RULES}},
    ],
    "bounds": "(a) standard build: parent = every window of a 32-byte buffer, offset and element count unconstrained, element types u8,u16,u32,u64,u128,[u8;3],Le32. "
              "(b) Xen build: on-demand grant region of 4 pages under a 64-byte page model, guest base any page-aligned u64, domain id any u32; one access per query at ANY "
              "region offset with length 1..=9 (buffer write; thorough: u64 object / typed-ref store), i.e. one- and two-page "
              "windows at every in-page offset; atomic store at any 4-aligned offset",
    "outside": "the buffer READ direction and the u16 element-array copy on on-demand regions (harnesses x17::ondemand_read / ondemand_array_copy exist but are in no tier: the "
               "read query ran out of memory at 40 GB, the array copy lacks a validated loop bound); sequences of accesses longer than one (every access constructs and drops its own window; 'none remains' is asserted after each); windows of more than "
               "two pages; advance-mapped grant/foreign regions' data path (construction requests are C15's); real gntdev/privcmd behaviour (modelled)",
    "assumptions": ["xstubs.rs: Kani stub of vmm_sys_util::ioctl::ioctl_with_ref logs requests and hands out map indices; cffi.rs mmap/munmap/sysconf(64-byte page) models",
                    "x17 harnesses stub kani::rustc_intrinsics::offset with wrapping address arithmetic: pointer addition on the NULL-based pseudo-pointers of on-demand "
                    "regions is treated as integer addition (the UB-class finding is reported by x17::ub_null_base_add, which runs without that stub)"],
}

PROPS["C18"] = {
    "groups": [
        {"crate": "std", "quick": ["c18::", "c18r::region_", "c18r::guest_empty"], "jobs": 8, "mem_gb": 8, "timeout_s": 600, "stubbed": True},
        {"crate": "std", "quick": ["c18r::gs_read_volatile_from", "c18r::gs_write_all_volatile_to"], "thorough": ["c18r::gs_"],
         "jobs": 4, "mem_gb": 12, "timeout_s": 1500,
         "kani_flags": ["-Z", "restrict-vtable"], "stubbed": True, "unwindset": {"default": 1, "rules": _C14_RULES + [[r"copy_slice_volatile", 9]]}},
        # Xen build, regions mapped in advance
        {"crate": "xen", "quick": ["x01::"], "jobs": 2, "mem_gb": 10, "timeout_s": 900, "stubbed": True, "kani_flags": ["-Z", "restrict-vtable"]},
    ],
    "bounds": "slice level: container = every window of a 16-byte buffer with a recording bitmap, address unconstrained usize (stream forms: addresses valid for a non-empty access), "
              "empty buffers, objects [u8;0]/[u16;0]/[u64;0], zero-count stream transfers over a <= 3-byte &[u8]/&mut [u8], copies of <= 3 zero-sized elements, empty container; "
              "region level: real GuestRegionMmap (16 bytes), any MemoryRegionAddress; guest level: real default methods / blanket impl over the 2-region mock with symbolic "
              "layout, ANY guest address (mapped, one past a region, hole, 0, u64::MAX) for buffer/object forms, mapped addresses for zero-count stream forms",
    "outside": "",
    "assumptions": [],
}


PROPS["C03"] = {
    "groups": [
        # L1: real try_access + blanket Bytes<GuestAddress> over the contract-level mock, symbolic layouts
        {"crate": "std", "quick": ["c03::r1", "c03::r2::write", "c03::r2::read", "c03::hist::r1"], "thorough": ["c03::r2", "c03::r3", "c03::hist::r2"],
         "jobs": 6, "mem_gb": 10, "timeout_s": 1200, "timeout_thorough_s": 3600,
         "unwindset": {"default": 5, "rules": _MOCK_RULES}},
        # L2: the real GuestRegionMmap satisfies the region contract
        {"crate": "std", "quick": ["regn::"], "jobs": 6, "mem_gb": 10, "timeout_s": 900, "stubbed": True},
    ],
    "bounds": "L1: layouts of 1..2 (thorough: 3) sorted disjoint regions, bases symbolic 64-bit, sizes 1..=4 symbolic, ends <= 2^64-2; start address "
              "unconstrained u64; buffer length 1..=6; one operation from an arbitrary memory state; symbolic (region, offset) index for bytes, frame and marks. "
              "L2: real GuestRegionMmap over a 16-byte raw-pointer region (64-byte page model), address unconstrained, buffers <= 12 bytes. L3 = C02.",
    "outside": "the composition L1 & L2 & L3 => property for GuestMemoryMmap is an argument in DESIGN.md, not a solver query; file-backed / Xen-UNIX backing "
               "(bytes behind mmap are the kernel's; the pointer/offset arithmetic is what is checked); layouts with more than 3 regions; regions larger than 4 bytes at L1",
    "assumptions": ["mock.rs: region buffer forms are the obvious byte loop implementing the documented region contract; stream/atomic/slice forms delegate to a real VolatileSlice",
                    "cffi.rs: sysconf answers a 64-byte page for raw-pointer regions"],
}


PROPS["C02"] = {
    "groups": [
        {"crate": "std", "quick": ["c02::real1", "c02::real2", "c02::mock1", "c02::mock2", "c02::region_"], "thorough": ["c02::real3", "c02::mock3"],
         "jobs": 8, "mem_gb": 10, "timeout_s": 1200, "timeout_thorough_s": 3600, "stubbed": True,
         "unwindset": {"default": 4, "rules": _C02_RULES}},
    ],
    "bounds": "layouts of 1..2 (thorough: 3) regions; guest bases and sizes symbolic 64-bit (sizes >= 1; get_slice harnesses: sizes <= 4), constrained only "
              "by what GuestRegionMmap::new / from_arc_regions accept; query address, length, offset unconstrained; one lookup per query; "
              "real GuestMemoryMmap<()> over raw-pointer regions AND the contract-level mock (default trait methods)",
    "outside": "collections of more than 3 regions (binary search depth > 2); len == 0 for check_range/get_slice at an unmapped base (the statement fixes no answer; only absence of panic is checked)",
    "assumptions": ["cffi.rs: sysconf answers a 64-byte page; regions wrap an external pointer that is never dereferenced in the query harnesses"],
}


PROPS["C10"] = {
    "groups": [
        {"crate": "std", "quick": ["c10::new_region", "c10::from_", "c10::insert1", "c10::remove1", "c10::remove2_result"],
         "thorough": ["c10::remove2", "c10::remove3_result"],
         "jobs": 2, "mem_gb": 28, "timeout_s": 1500, "timeout_thorough_s": 3600, "stubbed": True,
         "unwindset": {"default": 4, "rules": _C10_RULES}},
    ],
    "bounds": "starting map of 1 region for insert, 1..2 (thorough: verdict from 3) regions for remove, with symbolic 64-bit bases and sizes; one insert or one remove with symbolic arguments; "
              "one question per query (result + identity of the handle / one find_region on the new map / one on the old map); from_regions/from_arc_regions with 0..3 regions",
    "outside": "maps with more than 3 regions after the step; insert_region into a 2-region map (all three questions) and find_region on the map left by removing from a 3-region map (they exceed 20-28 GB; the harnesses insert2_* / remove3_find_new exist but are in no tier; the same code is decided from 1-region maps for insert and 1-2-region maps for remove); sequences are covered by induction on the single step; 'keeps reaching the same memory' for old handles is C12",
    "assumptions": ["alloc::slice::stable_sort modelled by an insertion sort, alloc::vec::Vec::remove by rotate-to-end + pop (harness/std/src/stdstubs.rs): std is the environment",
                    "cffi.rs sysconf model (64-byte page)"],
}

PROPS["C12"] = {
    "groups": [
        {"crate": "std", "quick": ["c12::drop_step", "c12::history_clone", "c12::history_insert"], "thorough": ["c12::history_remove"],
         "jobs": 3, "mem_gb": 20, "timeout_s": 1500, "timeout_thorough_s": 3000, "stubbed": True,
         "unwindset": {"default": 5, "rules": []}},
    ],
    "bounds": "(i) drop step: owned region at symbolic (address, size) through MmapRegion::new and through the builder with symbolic prot/flags; external "
              "raw-pointer region at any page-aligned address; (ii) histories over two owned regions at symbolic host addresses/sizes: build+clone (both drop "
              "orders), build+insert_region (both orders), build+remove_region (all six drop orders of old map / new map / removed handle; thorough tier); "
              "ghost table compared with the reachability model after every drop",
    "outside": "the 'programs' half (an accessor outliving its region must not compile) is decided by rustc's borrow checker, not by a solver; "
               "real mmap/munmap (modelled); histories with three or more live maps; GuestMemoryMmap::from_regions inside histories (its drain/collect "
               "followed by real drops exceeds 25 GB; from_arc_regions is used, from_regions' results are C10's); snapshots (C11)",
    "assumptions": ["cffi.rs mmap/munmap models with ghost table: munmap must name exactly one live (base,len)",
                    "alloc::slice::stable_sort / Vec::remove models (stdstubs.rs)"],
}

PROPS["C15"] = {
    "groups": [
        {"crate": "std", "quick": ["c15::"], "jobs": 6, "mem_gb": 8, "timeout_s": 900, "stubbed": True, "kani_flags": ["--default-unwind", "6"]},
        # Xen build: flag word validation (all 2^32 words), missing file, non-zero offset, MAP_FIXED, requests per mapping type
        {"crate": "xen", "quick": ["x15::"], "jobs": 4, "mem_gb": 12, "timeout_s": 1200, "stubbed": True,
         "kani_flags": ["-Z", "restrict-vtable"], "unwindset": {"default": 1, "rules": _XEN_RULES}},
    ],
    "bounds": "standard build: size, protection, flags word, file offset, file length (lseek model), raw pointer value, guest base all unconstrained; "
              "mmap may fail; lseek may fail. Xen build: the mapping-type flag word over all 2^32 values (validity predicate; from_range without a file), "
              "with a file the words 0..=0x10 and 0x80000002; unix flags, file offset, guest address, domain id unconstrained; region size one page",
    "outside": "'byte i of the region is byte offset+i of the file' is the kernel's mmap contract; what is decided is that the library passes exactly "
               "(size, prot, flags, fd, offset) and reports the request back; real descriptors",
    "assumptions": ["cffi.rs models of mmap/munmap/lseek64/close/sysconf/__errno_location are the environment contract; File::from_raw_fd(7) stands for an arbitrary open file"],
}

PROPS["C13"] = {
    "groups": [
        {"crate": "std", "quick": ["c13::"], "jobs": 8, "mem_gb": 12, "timeout_s": 1200, "stubbed": True},
    ],
    "bounds": "stream content and length 0..=10 (symbolic), two consecutive calls with buffer lengths b1 + b2 <= 10 (both sides of the 8-byte threshold), "
              "cursor position unconstrained u64; adapters: &[u8] (read, read_exact), &mut [u8] (write, write_all), Cursor<&[u8]> (read, read_exact), "
              "Cursor<&mut [u8]> (write, write_all = default loop), Vec<u8> (write; concrete shapes: initial length 0/1/2, writes of 0/3/8/9 + 0/1/4 bytes), "
              "File via read(2)/write(2) models (one call, any return value >= -1, errno EINTR/EIO/EAGAIN)",
    "outside": "stream position after a FAILED exact call is not compared (only success/failure equivalence is required; newer std consumes the stream on EOF); "
               "Vec::write_all_volatile (default loop over Vec::write_volatile: > 16 GB); TcpStream/UnixStream/OwnedFd/BorrowedFd/Stdout share the File code path "
               "(read_volatile_raw_fd/write_volatile_raw_fd) and are not instantiated separately; real descriptors",
    "assumptions": ["twin = the std::io::Read/Write impl of the std Kani compiles (nightly-2026-08-21)", "cffi.rs read/write/__errno_location models"],
}


PROPS["C14"] = {
    "groups": [
        # quick: every length<=2 script on the cheap forms, EINTR-first scripts and the guest level by representatives
        # (each of those is a 5-7 minute query); thorough: the complete length<=2 and length-3 grids on all six forms
        {"crate": "std", "quick": ["c14::q_slice_read_exact::s_z", "c14::q_slice_read_exact::s_h", "c14::q_slice_read_exact::s_tz", "c14::q_slice_read_exact::s_th", "c14::q_slice_read_exact::s_ti", "c14::q_slice_read_exact::s_tt", "c14::q_slice_write_all::s_z", "c14::q_slice_write_all::s_h", "c14::q_slice_write_all::s_tz", "c14::q_slice_write_all::s_th", "c14::q_slice_write_all::s_ti", "c14::q_slice_write_all::s_tt", "c14::q_slice_read_exact::s_it", "c14::q_slice_read_exact::s_ih", "c14::q_slice_write_all::s_it", "c14::q_slice_read_upto", "c14::q_slice_write_upto", "c14::t_slice_read_upto", "c14::t_slice_write_upto", "c14::q_guest_read_upto::s_tt", "c14::q_guest_read_exact::s_it", "c14::q_guest_read_exact::s_tt"],
         "thorough": ["c14::q_", "c14::t_"], "jobs": 6, "mem_gb": 10, "timeout_s": 1500, "timeout_thorough_s": 3600,
         "unwind_is_violation": True,
         "kani_flags": ["-Z", "restrict-vtable"],
         # default 1 also bounds *recursion*: the virtual drop of io::Error's boxed payload (dropped by the library itself in
         # retry_eintr!) recurses through every dyn Error type; every real loop therefore has an explicit bound below
         "unwindset": {"default": 1, "rules": _C14_RULES}},
    ],
    "bounds": "every script of per-call behaviours (transfer up to a SYMBOLIC amount / zero / EINTR / hard error; zero and hard error end a script) of length "
              "<= 2 (thorough: length 3), the script kinds enumerated as a grid of solver queries, amounts symbolic; counts <= 3, any start address; slice level: exact and up-to forms, both directions, 8-byte slice; guest level (real try_access over the mock): stream -> memory, "
              "two regions of size <= 4 with symbolic bases, range may span both and end in a hole; executions needing a longer script are cut (assume)",
    "outside": "longer scripts and counts; guest-level memory -> stream direction and region-level wrappers (same slice code + error mapping, see regn.rs); real descriptors "
               "(fd level: one call per harness in C13)",
    "assumptions": ["Script (c14.rs) is harness code implementing ReadVolatile/WriteVolatile; it stamps delivered bytes 0xA0+k",
                    "an unwinding-assertion failure in these harnesses is reported as a violation (a retry loop that does not terminate within the script bound)"],
}

PROPS["C08"] = {
    "groups": [
        {"crate": "std", "quick": ["c08::p8", "c08::p65"], "thorough": ["c08::p64", "c08::p128"], "jobs": 12, "mem_gb": 8, "timeout_s": 900, "stubbed": True},
    ],
    "bounds": "bitmaps of 8 and 65 pages (thorough: 64 and 128; 1-3 words, page size 1); thread under test runs ONE real operation (set_addr_range/"
              "reset_addr_range over <= 3 pages starting anywhere, set_bit, reset_bit, get_and_reset, clone) with symbolic arguments; the environment "
              "(all other threads) performs up to 3 atomic steps in total - each 'mark any page of the word' or 'fetch-and-clear the word' - at solver-chosen "
              "yield points (before every atomic step of the real operation and of the final real get_and_reset); sequentially consistent memory",
    "outside": "weaker-than-SC behaviours (all RMWs in the bitmap are SeqCst; Acquire/Release of is_bit_set/clone/reset are not distinguished); more than 3 "
               "environment steps per operation; environment resets (fetch_and(!bit)) are not in the environment alphabet - resets by the thread under test are",
    "assumptions": ["Kani stubs (c08.rs) replace core::sync::atomic::atomic_{or,and,load,store,swap} by versions that run the environment and then the caller's step on the same word",
                    "every atomic step the code under test issues is checked to be in the alphabet (single-bit or, single-bit-clear / zero and)"],
}

# C07 has no harness family of its own (DESIGN §4 C07): every harness below leaves the guest-chosen arguments (addresses, offsets,
# lengths, counts) unconstrained, and Kani reports any reachable panic, failed unwrap, arithmetic overflow (overflow checks are on),
# division by zero, out-of-range index, or loop running past its bound.  The C07 check re-runs the designated "total" harnesses per
# entry point and fails on any such check (their functional assertions are part of the run as well).
PROPS["C07"] = {
    "groups": [
        {"crate": "std", "quick": ["c01::", "c09::q_p3_s4", "c09::q_p7_s64::", "c09::q_p4096_w1p_short", "c04::write", "c04::read", "c04::o_u64",
                                    "c13::cursor_reader", "c18::slice_empty", "regn::"],
         "thorough": ["c04::", "c09::q_", "c13::", "c18::", "c18r::region_", "c18r::guest_empty"],
         "jobs": 16, "mem_gb": 8, "timeout_s": 900, "unwind_is_violation": True, "stubbed": True},
        {"crate": "std", "quick": ["c02::real2::check_range", "c02::real2::checked_offset", "c02::real2::get_slice", "c02::real2::host", "c02::mock2::check_range", "c02::real1::find"],
         "thorough": ["c02::real2", "c02::mock2", "c02::real3::check_range"],
         "jobs": 8, "mem_gb": 10, "timeout_s": 1200, "timeout_thorough_s": 3600, "stubbed": True, "unwind_is_violation": True,
         "unwindset": {"default": 4, "rules": _C02_RULES}},
        {"crate": "std", "quick": ["c03::r1::write", "c03::r1::read"], "thorough": ["c03::r2"],
         "jobs": 6, "mem_gb": 10, "timeout_s": 1200, "timeout_thorough_s": 3600, "unwind_is_violation": True,
         "unwindset": {"default": 5, "rules": _MOCK_RULES}},
    ],
    "bounds": "entry points covered with every guest-chosen argument unconstrained (full usize / u64 range): all slice derivations and typed/atomic accessors (c01), "
              "buffer and object accesses on slices (c04) and regions (regn), bitmap range/bit operations (c09), guest-memory queries incl. check_range/checked_offset/"
              "get_slice/get_host_address on layouts with symbolic 64-bit bases and sizes (c02: regions at 0 and ending at 2^64-2 are instances), guest-memory "
              "write/read through try_access (c03), cursor adapters with any u64 position (c13), zero-length accesses (c18). Checked build (overflow checks on): "
              "no reachable overflow there implies identical values in the unchecked build",
    "outside": "documented program-logic panics (ref_at index, non-power-of-two alignment); constructor-time configuration (AtomicBitmap::enlarge sums, zero-sized "
               "regions, fds_overlap); container sizes above the harness bounds",
    "assumptions": ["an unwinding-assertion failure counts as a violation here (a loop that does not terminate within its derived bound)"],
}
