//! C15 (Xen build) - region construction accepts exactly the safe requests: the mapping-type flag word (all 2^32
//! values), missing backing file, non-zero file offset, MAP_FIXED; nothing left mapped on error; getters report the
//! request.
use crate::cffi::{self, *};
use crate::common::*;
use crate::xstubs::*;
use std::fs::File;
use std::os::fd::FromRawFd;
use vm_memory::mmap::{MmapRange, MmapRegion, MmapRegionError as XErr, MmapXenFlags};
use vm_memory::{FileOffset, GuestAddress, VolatileMemory};

const FD: i32 = 9;

/// the plain reading of the flag word: known bits only, exactly one mapping type, on-demand only for grant
fn flags_ok(w: u32) -> bool {
    w == 0x0 || w == 0x1 || w == 0x2 || w == (0x2 | 0x8)
}

#[kani::proof]
fn flag_predicate_all_words() {
    let w: u32 = kani::any();
    let valid = match MmapXenFlags::from_bits(w) {
        Some(f) => f.is_valid(),
        None => false,
    };
    assert!(valid == flags_ok(w));
    kani::cover!(valid && w == 10);
    kani::cover!(!valid && w == 3); // GRANT | FOREIGN
    kani::cover!(!valid && w == 8); // UNIX | NO_ADVANCE_MAP
    kani::cover!(!valid && w == 9); // FOREIGN | NO_ADVANCE_MAP
    kani::cover!(!valid && w == 4); // unknown bit
    kani::cover!(!valid && w == 0x8000_0002);
}

/// from_range with an arbitrary flag word, arbitrary unix flags, with or without a file at an arbitrary file offset:
/// which requests are refused, and nothing is left mapped when they are
fn from_range_refusals_body<const WITH_FILE: bool>() {
    cffi::link();
    let w: u32 = kani::any();
    if WITH_FILE {
        // with a backing file the three constructors run to completion: keep the flag word to the valid ones and the
        // most instructive invalid ones (the full 2^32 space is covered without a file and by flag_predicate_all_words)
        kani::assume(w <= 0x10 || w == 0x8000_0002);
    }
    let data: u32 = kani::any();
    let size: usize = 0x1000;
    let addr: u64 = kani::any();
    let with_file: bool = WITH_FILE;
    let start: u64 = kani::any();
    let uflags: i32 = kani::any();
    let set_flags: bool = kani::any();
    unsafe {
        NEXT_BASE[0] = 0x7000_0000;
        FILE_LEN = i64::MAX;
    }
    // SAFETY: descriptor only reaches the models
    let fo = if with_file { Some(FileOffset::new(unsafe { File::from_raw_fd(FD) }, start)) } else { None };
    let mut range = MmapRange::new(size, fo, GuestAddress(addr), w, data);
    if set_flags {
        range.set_flags(uflags);
    }
    let r = MmapRegion::<()>::from_range(range);
    let fixed = set_flags && uflags & libc::MAP_FIXED != 0;
    let bad_flags = !flags_ok(w);
    let xen_type = w & 0x3 != 0; // foreign or grant: needs a file at offset 0
    let no_file = !bad_flags && xen_type && !with_file;
    let bad_off = !bad_flags && xen_type && with_file && start != 0;
    let unix_off_overflow = !bad_flags && !xen_type && with_file && start as u128 + size as u128 > u64::MAX as u128;
    let unix_past_eof = !bad_flags && !xen_type && with_file && !unix_off_overflow && start as u128 + size as u128 > i64::MAX as u128;
    let refuse = fixed || bad_flags || no_file || bad_off || unix_off_overflow || unix_past_eof;
    match &r {
        Ok(reg) => {
            assert!(!refuse);
            assert!(reg.size() == size && reg.xen_mmap_flags() == w && reg.xen_mmap_data() == data);
            assert!(reg.prot() == libc::PROT_READ | libc::PROT_WRITE);
            assert!(reg.flags() == if set_flags { uflags } else { libc::MAP_NORESERVE | libc::MAP_SHARED });
            assert!(reg.len() == size);
        }
        Err(e) => {
            assert!(refuse);
            match e {
                XErr::MapFixed => assert!(fixed),
                XErr::MmapFlags(x) => assert!(bad_flags && *x == w),
                XErr::InvalidFileOffset => assert!(no_file),
                XErr::InvalidOffsetLength => assert!(bad_off || unix_off_overflow),
                XErr::MappingPastEof => assert!(unix_past_eof),
                _ => assert!(false),
            }
            // nothing mapped, nothing requested from the hypervisor
            assert!(live_count() == 0);
            assert!(unsafe { N_MMAP == N_MUNMAP });
        }
    }
    kani::cover!(r.is_ok() && w == 0);
    kani::cover!(!WITH_FILE || (r.is_ok() && w == 1));
    kani::cover!(!WITH_FILE || (r.is_ok() && w == 2));
    kani::cover!(!WITH_FILE || (r.is_ok() && w == 10));
    kani::cover!(matches!(r, Err(XErr::MmapFlags(_))) && w == 3);
    kani::cover!(WITH_FILE || matches!(r, Err(XErr::InvalidFileOffset)));
    kani::cover!(!WITH_FILE || (matches!(r, Err(XErr::InvalidOffsetLength)) && xen_type));
    kani::cover!(matches!(r, Err(XErr::MapFixed)));
    core::mem::forget(r);
}
#[kani::proof]
#[kani::stub(vmm_sys_util::ioctl::ioctl_with_ref, ioctl_with_ref_stub)]
fn from_range_refusals_no_file() {
    from_range_refusals_body::<false>()
}
#[kani::proof]
#[kani::stub(vmm_sys_util::ioctl::ioctl_with_ref, ioctl_with_ref_stub)]
fn from_range_refusals_with_file() {
    from_range_refusals_body::<true>()
}

/// what a successful construction asks the kernel / hypervisor for, per mapping type (one page)
#[kani::proof]
#[kani::stub(vmm_sys_util::ioctl::ioctl_with_ref, ioctl_with_ref_stub)]
fn from_range_requests() {
    cffi::link();
    let which: u8 = kani::any();
    kani::assume(which < 4);
    let w: u32 = [0x0u32, 0x1, 0x2, 0xa][which as usize];
    let data: u32 = kani::any();
    let addr: u64 = kani::any();
    let size: usize = 0x1000;
    unsafe {
        NEXT_BASE[0] = 0x7000_0000;
        FILE_LEN = i64::MAX;
    }
    let fo = Some(FileOffset::new(unsafe { File::from_raw_fd(FD) }, 0));
    let range = MmapRange::new(size, fo, GuestAddress(addr), w, data);
    let r = MmapRegion::<()>::from_range(range);
    match &r {
        Ok(reg) => {
            let s = unsafe { MAPS[0] };
            match which {
                0 => {
                    // plain unix mapping of the file
                    assert!(s.live && s.len == size && s.fd == FD && s.off == 0 && nlog() == 0);
                    assert!(reg.as_ptr() as usize == 0x7000_0000);
                }
                1 => {
                    // foreign: mapping of the privcmd file + one batch request for `pages` frames of domain `data`
                    assert!(s.live && s.len == size && s.fd == FD && s.off == 0 && s.flags & libc::MAP_SHARED != 0);
                    assert!(nlog() == 1 && log(0).req == req_privcmd() && log(0).a == 1 && log(0).b == (data as u16) as u64);
                    assert!(reg.as_ptr() as usize == 0x7000_0000);
                }
                2 => {
                    // grant mapped in advance: one map request for the frame of `addr`, then mmap at the returned index
                    assert!(nlog() == 1 && log(0).req == req_map() && log(0).a == 1 && log(0).b == data as u64);
                    assert!(log(0).c == (((addr & !(1u64 << 63)) / 4096) as u32) as u64);
                    assert!(s.live && s.len == size && s.fd == FD && s.off as u64 == log(0).index);
                    assert!(reg.as_ptr() as usize == 0x7000_0000);
                }
                _ => {
                    // on-demand grant: nothing is mapped at construction
                    assert!(nlog() == 0 && live_count() == 0 && unsafe { N_MMAP } == 0);
                    assert!(reg.as_ptr().is_null());
                }
            }
        }
        Err(e) => {
            leak(e);
            assert!(false);
        }
    }
    kani::cover!(which == 1);
    kani::cover!(which == 2 && addr >= 1u64 << 63);
    kani::cover!(which == 3);
    core::mem::forget(r);
}
