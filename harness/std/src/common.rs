//! Shared helpers for the harnesses (no model of vm-memory code lives here).
use core::mem::ManuallyDrop;
use vm_memory::volatile_memory::Error as VErr;
use vm_memory::{VolatileMemory, VolatileSlice};

/// 8-aligned byte buffer, so that "address modulo 8" of a window is determined by its offset.
#[repr(C, align(8))]
pub struct Aligned<const N: usize>(pub [u8; N]);

impl<const N: usize> Aligned<N> {
    pub fn any() -> Self {
        Aligned(kani::any())
    }
    pub fn zero() -> Self {
        Aligned([0u8; N])
    }
    pub fn base(&self) -> usize {
        self.0.as_ptr() as usize
    }
}

/// A symbolic window (offset, length) of a buffer of `n` bytes: every (address mod 8, length) pair.
pub fn any_window(n: usize) -> (usize, usize) {
    let o: usize = kani::any();
    let c: usize = kani::any();
    kani::assume(o <= n);
    kani::assume(c <= n - o);
    (o, c)
}

/// Address and length of a slice as the library reports them through its pointer guard.
pub fn extent<B: vm_memory::bitmap::BitmapSlice>(s: &VolatileSlice<B>) -> (usize, usize) {
    let g = s.ptr_guard();
    (g.as_ptr() as usize, g.len())
}

/// Error values are never dropped symbolically (io::Error drop glue explodes under CBMC).
pub fn leak<T>(t: T) {
    core::mem::forget(t)
}

#[derive(Clone, Copy, PartialEq, Eq)]
pub enum EK {
    OutOfBounds,
    Overflow,
    TooBig,
    Misaligned,
    IOError,
    PartialBuffer,
}

pub fn ekind(e: &VErr) -> EK {
    match e {
        VErr::OutOfBounds { .. } => EK::OutOfBounds,
        VErr::Overflow { .. } => EK::Overflow,
        VErr::TooBig { .. } => EK::TooBig,
        VErr::Misaligned { .. } => EK::Misaligned,
        VErr::IOError(_) => EK::IOError,
        VErr::PartialBuffer { .. } => EK::PartialBuffer,
    }
}

/// Result -> (is_ok, error kind) without dropping the error.
pub fn rk<T>(r: &Result<T, VErr>) -> Option<EK> {
    match r {
        Ok(_) => None,
        Err(e) => Some(ekind(e)),
    }
}
