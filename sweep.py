#!/usr/bin/env python3
"""Development aid: run a list of (mutant, properties) pairs through mutate.py and summarise."""
import subprocess, sys, json, os
import shutil
plan = json.load(open(sys.argv[1]))
out = {}
# freeze the harness sources so that edits made while the sweep runs do not leak into it
snap = os.path.abspath("work/alt/harness-src")
shutil.rmtree(snap, ignore_errors=True)
shutil.copytree("harness", snap, ignore=shutil.ignore_patterns("target"))
os.environ["VMVERIF_HARNESS_SRC"] = snap
for m, pids in plan.items():
    r = subprocess.run(["./mutate.py", "mutants/%s.diff" % m] + pids, capture_output=True, text=True)
    res = [l for l in r.stdout.splitlines() if l.startswith("== ") or l.startswith("SUMMARY")]
    print("\n".join(res), flush=True)
    out[m] = res
json.dump(out, open("work/sweep-result.json", "w"), indent=1)
