//! C01 - every accessor handed out stays inside its parent and is aligned.
//!
//! One inductive step per derivation operation: the parent is an arbitrary valid slice (a symbolic
//! window of a 32-byte, 8-aligned buffer: every base alignment and every length 0..=32), all request
//! arguments are unconstrained `usize`.  Oracle: `Ok(child)` iff the exact arithmetic condition, child
//! extent == request and inside the parent; Kani's pointer checks are the second oracle (any
//! `ptr.add` leaving the allocation or dereference outside it fails at the line in /repo/src).
use crate::common::*;
use core::mem::{align_of, size_of};
use core::sync::atomic::{AtomicU16, AtomicU32, AtomicU64, AtomicU8};
use vm_memory::volatile_memory::{compute_offset, Error as VErr};
use vm_memory::{ByteValued, VolatileArrayRef, VolatileMemory, VolatileRef, VolatileSlice};

const N: usize = 32;

macro_rules! parent {
    ($buf:ident, $p:ident, $pa:ident, $pl:ident) => {
        let mut $buf = Aligned::<N>::zero();
        let (wo, wc) = any_window(N);
        let base = $buf.base();
        let $p = VolatileSlice::from(&mut $buf.0[wo..wo + wc]);
        let ($pa, $pl) = extent(&$p);
        assert!($pa == base + wo && $pl == wc);
    };
}

#[kani::proof]
fn compute_offsets() {
    let a: usize = kani::any();
    let b: usize = kani::any();
    let r = compute_offset(a, b);
    match &r {
        Ok(m) => assert!(a as u128 + b as u128 == *m as u128),
        Err(_) => assert!(a as u128 + b as u128 > usize::MAX as u128),
    }
    kani::cover!(r.is_ok());
    kani::cover!(r.is_err());
    leak(r);
    parent!(buf, p, pa, pl);
    let r = p.compute_end_offset(a, b);
    let exact = a as u128 + b as u128;
    match &r {
        Ok(m) => assert!(exact == *m as u128 && exact <= pl as u128),
        Err(e) => {
            assert!(exact > pl as u128);
        }
    }
    kani::cover!(r.is_ok() && exact == pl as u128 && b == 0);
    kani::cover!(r.is_err() && exact == pl as u128 + 1);
    leak(r);
}

#[kani::proof]
fn subslice_and_get_slice() {
    parent!(buf, p, pa, pl);
    let off: usize = kani::any();
    let cnt: usize = kani::any();
    let exact = off as u128 + cnt as u128;
    let fits = exact <= pl as u128;
    let which: bool = kani::any();
    let r = if which { p.subslice(off, cnt) } else { p.get_slice(off, cnt) };
    match &r {
        Ok(c) => {
            let (ca, cl) = extent(c);
            assert!(fits);
            assert!(ca == pa + off && cl == cnt && c.len() == cnt);
            assert!(ca >= pa && ca + cl <= pa + pl);
        }
        Err(e) => {
            assert!(!fits);
        }
    }
    kani::cover!(r.is_ok() && cnt > 0 && off > 0);
    kani::cover!(r.is_ok() && exact == pl as u128 && cnt == 0);
    kani::cover!(r.is_err() && exact == pl as u128 + 1);
    kani::cover!(r.is_err() && exact > usize::MAX as u128);
    leak(r);
}

#[kani::proof]
fn offset_op() {
    parent!(buf, p, pa, pl);
    let cnt: usize = kani::any();
    let r = p.offset(cnt);
    match &r {
        Ok(c) => {
            let (ca, cl) = extent(c);
            assert!(cnt <= pl);
            assert!(ca == pa + cnt && cl == pl - cnt);
        }
        Err(e) => {
            assert!(cnt > pl);
            
        }
    }
    kani::cover!(r.is_ok() && cnt == pl && pl > 0);
    kani::cover!(r.is_err() && cnt == pl + 1);
    kani::cover!(r.is_err() && cnt == usize::MAX);
    leak(r);
}

#[kani::proof]
fn split_at_op() {
    parent!(buf, p, pa, pl);
    let mid: usize = kani::any();
    let r = p.split_at(mid);
    match &r {
        Ok((a, b)) => {
            let (aa, al) = extent(a);
            let (ba, bl) = extent(b);
            assert!(mid <= pl);
            assert!(aa == pa && al == mid);
            assert!(ba == pa + mid && bl == pl - mid);
        }
        Err(_) => assert!(mid > pl),
    }
    kani::cover!(r.is_ok() && mid == pl && pl > 0);
    kani::cover!(r.is_ok() && mid == 0);
    kani::cover!(r.is_err() && mid == pl + 1);
    leak(r);
}

#[kani::proof]
fn as_volatile_slice_and_array_from() {
    parent!(buf, p, pa, pl);
    let s = p.as_volatile_slice();
    let (a, l) = extent(&s);
    assert!(a == pa && l == pl);
    let arr: VolatileArrayRef<u8> = p.into();
    assert!(arr.len() == pl);
    let back = arr.to_slice();
    let (a, l) = extent(&back);
    assert!(a == pa && l == pl);
    assert!(p.is_empty() == (pl == 0));
    kani::cover!(pl == 0);
    kani::cover!(pl == N);
}

macro_rules! typed {
    ($modname:ident, $T:ty) => {
        mod $modname {
            use super::*;
            const SZ: usize = size_of::<$T>();
            const AL: usize = align_of::<$T>();

            #[kani::proof]
            fn get_ref() {
                parent!(buf, p, pa, pl);
                let off: usize = kani::any();
                let exact = off as u128 + SZ as u128;
                let r = p.get_ref::<$T>(off);
                match &r {
                    Ok(c) => {
                        assert!(exact <= pl as u128);
                        let g = c.ptr_guard();
                        assert!(g.as_ptr() as usize == pa + off);
                        assert!(g.len() == SZ && c.len() == SZ);
                        let gm = c.ptr_guard_mut();
                        assert!(gm.as_ptr() as usize == pa + off && gm.len() == SZ);
                        let s = c.to_slice();
                        let (sa, sl) = extent(&s);
                        assert!(sa == pa + off && sl == SZ);
                    }
                    Err(e) => {
                        assert!(exact > pl as u128);
                    }
                }
                kani::cover!(r.is_ok() && off > 0);
                kani::cover!(r.is_ok() && exact == pl as u128);
                kani::cover!(r.is_err() && exact == pl as u128 + 1);
                kani::cover!(r.is_err() && off == usize::MAX);
                leak(r);
            }

            #[kani::proof]
            fn get_array_ref() {
                parent!(buf, p, pa, pl);
                let off: usize = kani::any();
                let n: usize = kani::any();
                let nbytes = n as u128 * SZ as u128;
                let toobig = n as u128 > isize::MAX as u128 || nbytes > isize::MAX as u128;
                let exact = off as u128 + nbytes;
                let r = p.get_array_ref::<$T>(off, n);
                match &r {
                    Ok(c) => {
                        assert!(!toobig && exact <= pl as u128);
                        assert!(c.len() == n && c.element_size() == SZ && c.is_empty() == (n == 0));
                        let g = c.ptr_guard();
                        assert!(g.as_ptr() as usize == pa + off);
                        let s = c.to_slice();
                        let (sa, sl) = extent(&s);
                        assert!(sa == pa + off && sl == n * SZ);
                        assert!(sa >= pa && sa + sl <= pa + pl);
                    }
                    Err(e) => {
                        assert!(toobig || exact > pl as u128);
                    }
                }
                kani::cover!(r.is_ok() && n > 0 && off > 0);
                kani::cover!(r.is_ok() && n > 0 && exact == pl as u128);
                kani::cover!(r.is_err() && !toobig && exact == pl as u128 + 1);
                kani::cover!(SZ == 1 || (r.is_err() && toobig && n <= isize::MAX as usize));
                kani::cover!(r.is_err() && n > isize::MAX as usize);
                leak(r);
            }

            #[kani::proof]
            fn ref_at() {
                parent!(buf, p, pa, pl);
                let off: usize = kani::any();
                let n: usize = kani::any();
                let i: usize = kani::any();
                let r = p.get_array_ref::<$T>(off, n);
                if let Ok(c) = &r {
                    kani::assume(i < n); // documented panic otherwise (program logic, not guest data)
                    let e = c.ref_at(i);
                    let g = e.ptr_guard();
                    assert!(g.as_ptr() as usize == pa + off + i * SZ);
                    assert!(g.len() == SZ);
                    assert!(g.as_ptr() as usize + SZ <= pa + pl);
                    kani::cover!(i > 0 && i == n - 1);
                    kani::cover!(i == 0);
                }
                leak(r);
            }

            #[kani::proof]
            fn aligned_refs() {
                parent!(buf, p, pa, pl);
                let off: usize = kani::any();
                let exact = off as u128 + SZ as u128;
                let fits = exact <= pl as u128;
                let aligned = fits && (pa + off) % AL == 0;
                // SAFETY: nothing else uses the buffer.
                let r = unsafe { p.aligned_as_ref::<$T>(off) };
                match &r {
                    Ok(c) => {
                        assert!(aligned);
                        assert!(*c as *const $T as usize == pa + off);
                    }
                    Err(e) => {
                        assert!(!aligned);
                    }
                }
                kani::cover!(r.is_ok() && off > 0);
                kani::cover!(AL == 1 || (r.is_err() && fits));
                kani::cover!(r.is_err() && !fits);
                leak(r);
                let r = unsafe { p.aligned_as_mut::<$T>(off) };
                match &r {
                    Ok(c) => {
                        assert!(aligned);
                        assert!(*c as *const $T as usize == pa + off);
                    }
                    Err(e) => {
                        assert!(!aligned);
                    }
                }
                leak(r);
            }

            #[kani::proof]
            fn from_slice() {
                let mut buf = Aligned::<N>::zero();
                let (wo, wc) = any_window(N);
                let base = buf.base();
                let want = wc == SZ && (base + wo) % AL == 0;
                {
                    let r = <$T as ByteValued>::from_slice(&buf.0[wo..wo + wc]);
                    match r {
                        Some(t) => assert!(want && t as *const $T as usize == base + wo),
                        None => assert!(!want),
                    }
                    kani::cover!(r.is_some());
                    kani::cover!(AL == 1 || (r.is_none() && wc == SZ));
                }
                let r = <$T as ByteValued>::from_mut_slice(&mut buf.0[wo..wo + wc]);
                match r {
                    Some(t) => assert!(want && t as *const $T as usize == base + wo),
                    None => assert!(!want),
                }
            }
        }
    };
}

typed!(t_u8, u8);
typed!(t_u16, u16);
typed!(t_u32, u32);
typed!(t_u64, u64);
typed!(t_u128, u128);
typed!(t_a3, [u8; 3]);
typed!(t_a2x16, [u16; 2]);
typed!(t_le32, vm_memory::Le32);

macro_rules! atomic {
    ($name:ident, $A:ty) => {
        #[kani::proof]
        fn $name() {
            parent!(buf, p, pa, pl);
            let off: usize = kani::any();
            const SZ: usize = size_of::<$A>();
            let exact = off as u128 + SZ as u128;
            let fits = exact <= pl as u128;
            let aligned = fits && (pa + off) % align_of::<$A>() == 0;
            let r = p.get_atomic_ref::<$A>(off);
            match &r {
                Ok(c) => {
                    assert!(aligned);
                    assert!(*c as *const $A as usize == pa + off);
                }
                Err(e) => {
                    assert!(!aligned);
                }
            }
            kani::cover!(r.is_ok() && off > 0);
            kani::cover!(SZ == 1 || (r.is_err() && fits));
            kani::cover!(r.is_err() && !fits);
            leak(r);
        }
    };
}
atomic!(atomic_u8, AtomicU8);
atomic!(atomic_u16, AtomicU16);
atomic!(atomic_u32, AtomicU32);
atomic!(atomic_u64, AtomicU64);
