//! Access-trace stubs (E3): replace `core::ptr::{read,write}_volatile` and the private
//! `core::sync::atomic::atomic_{load,store}` helpers inside the *unmodified* crate by versions that log
//! (kind, address, width) and then perform the plain access.
use core::sync::atomic::Ordering;

pub const TMAX: usize = 20;
#[derive(Clone, Copy)]
pub struct Acc {
    pub kind: u8, // 0 = volatile read, 1 = volatile write, 2 = atomic load, 3 = atomic store
    pub addr: usize,
    pub width: usize,
}
/// one trace per access kind, so that a bounded scan of 9 entries sees every access of that kind
pub static mut TRACE: [[Acc; TMAX]; 4] = [[Acc { kind: 0, addr: 0, width: 0 }; TMAX]; 4];
pub static mut TN: [usize; 4] = [0; 4];

unsafe fn log(kind: u8, addr: usize, width: usize) {
    let k = kind as usize;
    assert!(TN[k] < TMAX, "trace capacity");
    TRACE[k][TN[k]] = Acc { kind, addr, width };
    TN[k] += 1;
}

pub unsafe fn rv_stub<T>(src: *const T) -> T {
    log(0, src as usize, core::mem::size_of::<T>());
    core::ptr::read(src)
}

pub unsafe fn wv_stub<T>(dst: *mut T, val: T) {
    log(1, dst as usize, core::mem::size_of::<T>());
    core::ptr::write(dst, val)
}

pub unsafe fn aload_stub<T: Copy, U: Copy>(src: *const T, _order: Ordering) -> T {
    log(2, src as usize, core::mem::size_of::<T>());
    core::ptr::read(src)
}

pub unsafe fn astore_stub<T: Copy, U: Copy>(dst: *mut T, val: T, _order: Ordering) {
    log(3, dst as usize, core::mem::size_of::<T>());
    core::ptr::write(dst, val)
}

pub fn count_kind(kind: u8) -> usize {
    unsafe { TN[kind as usize] }
}
pub fn count() -> usize {
    unsafe { TN[0] + TN[1] + TN[2] + TN[3] }
}
pub fn at_kind(kind: u8, i: usize) -> Acc {
    unsafe { TRACE[kind as usize][i] }
}

/// Accesses of `kind` whose address lies in [lo, hi): they must tile [start, start+len) exactly once, in
/// ascending order, each naturally aligned and of width 1/2/4/8; returns how many there were.
pub fn check_tiling(kind: u8, lo: usize, hi: usize, start: usize, len: usize) -> usize {
    let mut next = start;
    let mut cnt = 0;
    let mut i = 0;
    while i < 9 {
        if i < count_kind(kind) {
            let a = at_kind(kind, i);
            if a.addr >= lo && a.addr < hi {
                assert!(a.addr == next);
                assert!(a.width == 1 || a.width == 2 || a.width == 4 || a.width == 8);
                assert!(a.addr % a.width == 0);
                next += a.width;
                cnt += 1;
            }
        }
        i += 1;
    }
    assert!(count_kind(kind) <= 9);
    assert!(next == start + len);
    cnt
}
