//! Environment models for the libc functions vm-memory calls (linked by symbol name with `-Z c-ffi`; a harness must
//! reference `cffi::link()` once, otherwise Kani's reachability pass drops them and the calls return nondet).
//! These models are the environment contract and are listed as assumptions in the evidence.
#![allow(non_upper_case_globals)]
use core::ffi::{c_int, c_long, c_void};

pub const PAGE: usize = 4096;
/// what `sysconf(_SC_PAGESIZE)` answers.  Data-path harnesses set 64 so that a 64-byte pool is a whole "page"
/// (a 4096-byte symbolic object makes CBMC's array encoding run out of memory); the only consumer in
/// vm-memory's standard build is the alignment test of externally supplied pointers.
pub static mut PAGE_SIZE: c_long = PAGE as c_long;
pub const NSLOT: usize = 4;
pub const MAP_FAILED: *mut c_void = !0usize as *mut c_void;

#[derive(Clone, Copy)]
pub struct Slot {
    pub live: bool,
    pub base: usize,
    pub len: usize,
    pub prot: c_int,
    pub flags: c_int,
    pub fd: c_int,
    pub off: i64,
}
const EMPTY: Slot = Slot { live: false, base: 0, len: 0, prot: 0, flags: 0, fd: 0, off: 0 };

/// ghost table of mappings handed out by the `mmap` model
pub static mut MAPS: [Slot; NSLOT] = [EMPTY; NSLOT];
pub static mut N_MMAP: usize = 0;
pub static mut N_MUNMAP: usize = 0;
/// munmap of something that is not exactly a live mapping (double unmap, wrong length, foreign pointer)
pub static mut BAD_MUNMAP: usize = 0;
/// when set, the next mmap fails
pub static mut MMAP_FAIL: bool = false;
pub static mut ERRNO: c_int = 0;
/// address the mmap model returns for slot i (symbolic, chosen by the harness; never dereferenced unless it points
/// into a real pool)
pub static mut NEXT_BASE: [usize; NSLOT] = [0; NSLOT];
pub static mut FILE_LEN: i64 = 0;
pub static mut N_CLOSE: usize = 0;
pub static mut LSEEK_FAIL: bool = false;

pub fn link() {
    // SAFETY: plain calls into the models
    unsafe {
        assert!(sysconf(30) == PAGE_SIZE);
    }
    let _ = mmap as usize;
    let _ = munmap as usize;
    let _ = close as usize;
    let _ = lseek64 as usize;
    let _ = __errno_location as usize;
}

#[no_mangle]
pub unsafe extern "C" fn sysconf(_name: c_int) -> c_long {
    PAGE_SIZE
}

#[no_mangle]
pub unsafe extern "C" fn __errno_location() -> *mut c_int {
    core::ptr::addr_of_mut!(ERRNO)
}

#[no_mangle]
pub unsafe extern "C" fn mmap(addr: *mut c_void, len: usize, prot: c_int, flags: c_int, fd: c_int, off: i64) -> *mut c_void {
    N_MMAP += 1;
    if MMAP_FAIL {
        ERRNO = 12; // ENOMEM
        return MAP_FAILED;
    }
    let mut i = 0;
    while i < NSLOT {
        if !MAPS[i].live && MAPS[i].len == 0 {
            MAPS[i] = Slot { live: true, base: NEXT_BASE[i], len, prot, flags, fd, off };
            return NEXT_BASE[i] as *mut c_void;
        }
        i += 1;
    }
    ERRNO = 12;
    MAP_FAILED
}

#[no_mangle]
pub unsafe extern "C" fn munmap(addr: *mut c_void, len: usize) -> c_int {
    N_MUNMAP += 1;
    let mut i = 0;
    let mut hit = false;
    while i < NSLOT {
        if !hit && MAPS[i].live && MAPS[i].base == addr as usize && MAPS[i].len == len {
            MAPS[i].live = false;
            hit = true;
        }
        i += 1;
    }
    if !hit {
        BAD_MUNMAP += 1;
        ERRNO = 22;
        return -1;
    }
    0
}

#[no_mangle]
pub unsafe extern "C" fn close(_fd: c_int) -> c_int {
    N_CLOSE += 1;
    0
}

#[no_mangle]
pub unsafe extern "C" fn lseek64(_fd: c_int, off: i64, whence: c_int) -> i64 {
    if LSEEK_FAIL {
        ERRNO = 29; // ESPIPE
        return -1;
    }
    // SEEK_SET = 0, SEEK_END = 2
    if whence == 2 {
        FILE_LEN + off
    } else {
        off
    }
}

pub fn live_count() -> usize {
    let mut n = 0;
    let mut i = 0;
    while i < NSLOT {
        if unsafe { MAPS[i].live } {
            n += 1;
        }
        i += 1;
    }
    n
}

/// page-aligned backing store for raw-pointer regions
#[repr(C, align(64))]
pub struct PagePool(pub [u8; 64]);

pub fn small_pages() {
    // SAFETY: single-threaded harness
    unsafe { PAGE_SIZE = 64 }
}

// ---- read(2) / write(2): scripted descriptor I/O -------------------------------------------------------------
pub const SCRIPT: usize = 6;
/// per-call behaviour: value returned (>= 0: bytes transferred, capped at the request; -1: error with IO_ERRNO[i])
pub static mut IO_RET: [isize; SCRIPT] = [0; SCRIPT];
pub static mut IO_ERRNO: [c_int; SCRIPT] = [0; SCRIPT];
pub static mut IO_CALLS: usize = 0;
/// log of calls: (fd, pointer, count)
pub static mut IO_LOG: [(c_int, usize, usize); SCRIPT] = [(0, 0, 0); SCRIPT];
/// running stamp: byte k delivered by read() has value STAMP0 + k (so loss / duplication / reordering is visible)
pub static mut IO_DELIVERED: usize = 0;
pub const STAMP0: u8 = 0xA0;
/// bytes handed to write(), in order
pub static mut IO_SINK: [u8; 16] = [0; 16];
pub static mut IO_ACCEPTED: usize = 0;

pub fn link_io() {
    let _ = read as usize;
    let _ = write as usize;
    let _ = __errno_location as usize;
}

unsafe fn io_step(fd: c_int, p: usize, count: usize) -> isize {
    assert!(IO_CALLS < SCRIPT, "I/O script exhausted");
    let i = IO_CALLS;
    IO_LOG[i] = (fd, p, count);
    IO_CALLS += 1;
    let r = IO_RET[i];
    if r < 0 {
        ERRNO = IO_ERRNO[i];
        return -1;
    }
    if r as usize > count {
        count as isize
    } else {
        r
    }
}

#[no_mangle]
pub unsafe extern "C" fn read(fd: c_int, buf: *mut c_void, count: usize) -> isize {
    let n = io_step(fd, buf as usize, count);
    if n > 0 {
        let mut k = 0;
        while k < n as usize {
            *(buf as *mut u8).add(k) = STAMP0.wrapping_add((IO_DELIVERED + k) as u8);
            k += 1;
        }
        IO_DELIVERED += n as usize;
    }
    n
}

#[no_mangle]
pub unsafe extern "C" fn write(fd: c_int, buf: *const c_void, count: usize) -> isize {
    let n = io_step(fd, buf as usize, count);
    if n > 0 {
        let mut k = 0;
        while k < n as usize {
            if IO_ACCEPTED + k < 16 {
                IO_SINK[IO_ACCEPTED + k] = *(buf as *const u8).add(k);
            }
            k += 1;
        }
        IO_ACCEPTED += n as usize;
    }
    n
}
