//! Operation bodies on a volatile slice, shared by C04 (bytes moved), C05 (marks sound), C16 (marks precise).
//!
//! MODE 0: container is `VolatileSlice<()>`, assertions on bytes / counts / errors (C04).
//! MODE 1: container carries `RefSlice<Recorder>` at a symbolic root offset; assertions: every changed byte and
//!         every byte reported written is covered by a recorded mark (C05).
//! MODE 2: same container; assertions: recorded marks lie inside the bytes reported written, reads and requests
//!         rejected before any byte moved record nothing (C16).
use crate::common::*;
use crate::recorder::Recorder;
use core::mem::{align_of, size_of};
use core::sync::atomic::Ordering;
use vm_memory::bitmap::Bitmap;
use vm_memory::{AtomicAccess, ByteValued, Bytes, VolatileArrayRef, VolatileMemory, VolatileRef, VolatileSlice};

pub const N: usize = 16;
pub const L: usize = 12;

/// run `$body` on a container slice built over `$mem` (a `&mut [u8]`), flavour chosen by `$mode`
#[macro_export]
macro_rules! on_slice {
    ($mode:expr, $rec:ident, $root:expr, $mem:expr, |$s:ident| $body:expr) => {
        if $mode == 0 {
            let $s = vm_memory::VolatileSlice::from($mem);
            $body
        } else {
            let m: &mut [u8] = $mem;
            // SAFETY: `m` is a live exclusive borrow for the lifetime of the slice.
            let $s = unsafe {
                vm_memory::VolatileSlice::with_bitmap(m.as_mut_ptr(), m.len(), vm_memory::bitmap::Bitmap::slice_at($rec, $root), None)
            };
            $body
        }
    };
}

pub struct Ctx {
    pub mem: Aligned<N>,
    pub before: [u8; N],
    pub wo: usize,
    pub wc: usize,
    pub rec: Recorder,
    pub root: usize,
}

pub fn ctx() -> Ctx {
    let mem = Aligned::<N>::any();
    let before = mem.0;
    let (wo, wc) = any_window(N);
    let root: usize = kani::any();
    kani::assume(root <= usize::MAX / 2);
    Ctx { mem, before, wo, wc, rec: Recorder::new(), root }
}

/// after == before except `data` at container offset `lo` (n bytes)
pub fn expect_mem(c: &Ctx, lo: usize, n: usize, data: &dyn Fn(usize) -> u8) {
    // "for all i" as one symbolic index instead of a loop
    let i: usize = kani::any();
    kani::assume(i < N);
    let inside = n > 0 && i >= c.wo + lo && i - (c.wo + lo) < n;
    if inside {
        assert!(c.mem.0[i] == data(i - (c.wo + lo)));
    } else {
        assert!(c.mem.0[i] == c.before[i]);
    }
}

/// C05: every byte that differs from the pre-state, and every byte of the range reported written, is marked.
pub fn marks_sound(c: &Ctx, lo: usize, n: usize) {
    let i: usize = kani::any();
    kani::assume(i < N);
    if c.mem.0[i] != c.before[i] {
        assert!(i >= c.wo && c.rec.covers(c.root + (i - c.wo)));
    }
    let j: usize = kani::any();
    kani::assume(j < n);
    assert!(c.rec.covers(c.root + lo + j));
}

/// C16: marks confined to the n bytes reported written at container offset lo (nothing if n == 0).
pub fn marks_precise(c: &Ctx, lo: usize, n: usize) {
    if n == 0 {
        assert!(c.rec.is_clean());
    } else {
        assert!(c.rec.all_within(c.root + lo, n));
    }
}

pub fn post<const MODE: u8>(c: &Ctx, lo: usize, n: usize, data: &dyn Fn(usize) -> u8) {
    if MODE == 0 {
        expect_mem(c, lo, n, data);
    } else if MODE == 1 {
        marks_sound(c, lo, n);
    } else {
        marks_precise(c, lo, n);
    }
}

/// read-type operation: guest memory unchanged (C04), nothing marked (C16)
pub fn post_read<const MODE: u8>(c: &Ctx) {
    if MODE == 0 {
        expect_mem(c, 0, 0, &|_| 0u8);
    } else if MODE == 2 {
        assert!(c.rec.is_clean());
    }
}

fn local() -> (Aligned<N>, usize, usize) {
    let loc = Aligned::<N>::any();
    let (lo, ll) = any_window(N);
    kani::assume(ll <= L);
    (loc, lo, ll)
}

pub fn write<const MODE: u8, const SLICE_FORM: bool>() {
    let mut c = ctx();
    let (loc, lo, ll) = local();
    let addr: usize = kani::any();
    let (wo, wc) = (c.wo, c.wc);
    let rec = &c.rec;
    let root = c.root;
    let buf = &loc.0[lo..lo + ll];
    let exp_n = if ll == 0 || addr >= wc { 0 } else { core::cmp::min(ll, wc - addr) };
    let (mut ok, mut partial, mut oob) = (false, false, false);
    if !SLICE_FORM {
        let r = on_slice!(MODE, rec, root, &mut c.mem.0[wo..wo + wc], |s| s.write(buf, addr));
        if MODE == 0 {
            match &r {
                Ok(n) => assert!(*n == exp_n && (ll == 0 || addr < wc)),
                Err(e) => assert!(ll > 0 && addr >= wc ),
            }
        }
        ok = r.is_ok();
        partial = matches!(r, Err(vm_memory::VolatileMemoryError::PartialBuffer { .. }));
        oob = matches!(r, Err(vm_memory::VolatileMemoryError::OutOfBounds { .. }));
        leak(r);
    } else {
        let r = on_slice!(MODE, rec, root, &mut c.mem.0[wo..wo + wc], |s| s.write_slice(buf, addr));
        if MODE == 0 {
            match &r {
                Ok(()) => assert!(exp_n == ll),
                Err(vm_memory::VolatileMemoryError::PartialBuffer { expected, completed }) => {
                    assert!(exp_n < ll && *expected == ll && *completed == exp_n && addr < wc)
                }
                Err(e) => assert!(ll > 0 && addr >= wc ),
            }
        }
        ok = r.is_ok();
        partial = matches!(r, Err(vm_memory::VolatileMemoryError::PartialBuffer { .. }));
        oob = matches!(r, Err(vm_memory::VolatileMemoryError::OutOfBounds { .. }));
        leak(r);
    }
    kani::cover!(ok && exp_n == ll && ll > 8);
    kani::cover!((ok || partial) && exp_n < ll && exp_n > 0);
    kani::cover!(ok && exp_n > 0 && exp_n <= 8);
    kani::cover!(oob && addr == wc);
    post::<MODE>(&c, addr, exp_n, &|j| buf[j]);
}

pub fn read<const MODE: u8, const SLICE_FORM: bool>() {
    let mut c = ctx();
    let (mut loc, lo, ll) = local();
    let loc_before = loc.0;
    let addr: usize = kani::any();
    let (wo, wc) = (c.wo, c.wc);
    let rec = &c.rec;
    let root = c.root;
    let exp_n = if ll == 0 || addr >= wc { 0 } else { core::cmp::min(ll, wc - addr) };
    let (mut ok, mut partial, mut oob) = (false, false, false);
    {
        let buf = &mut loc.0[lo..lo + ll];
        if !SLICE_FORM {
            let r = on_slice!(MODE, rec, root, &mut c.mem.0[wo..wo + wc], |s| s.read(buf, addr));
            if MODE == 0 {
                match &r {
                    Ok(n) => assert!(*n == exp_n && (ll == 0 || addr < wc)),
                    Err(e) => assert!(ll > 0 && addr >= wc ),
                }
            }
            ok = r.is_ok();
        partial = matches!(r, Err(vm_memory::VolatileMemoryError::PartialBuffer { .. }));
        oob = matches!(r, Err(vm_memory::VolatileMemoryError::OutOfBounds { .. }));
        leak(r);
        } else {
            let r = on_slice!(MODE, rec, root, &mut c.mem.0[wo..wo + wc], |s| s.read_slice(buf, addr));
            if MODE == 0 {
                match &r {
                    Ok(()) => assert!(exp_n == ll),
                    Err(vm_memory::VolatileMemoryError::PartialBuffer { expected, completed }) => {
                        assert!(exp_n < ll && *expected == ll && *completed == exp_n && addr < wc)
                    }
                    Err(e) => assert!(ll > 0 && addr >= wc ),
                }
            }
            ok = r.is_ok();
        partial = matches!(r, Err(vm_memory::VolatileMemoryError::PartialBuffer { .. }));
        oob = matches!(r, Err(vm_memory::VolatileMemoryError::OutOfBounds { .. }));
        leak(r);
        }
    }
    if MODE == 0 {
        // local buffer: first exp_n bytes of the window are the guest bytes, everything else untouched
        let i: usize = kani::any();
        kani::assume(i < N);
        let inside = exp_n > 0 && i >= lo && i - lo < exp_n;
        if inside {
            assert!(loc.0[i] == c.before[wo + addr + (i - lo)]);
        } else {
            assert!(loc.0[i] == loc_before[i]);
        }
    }
    kani::cover!(ok && exp_n == ll && ll > 8);
    kani::cover!((ok || partial) && exp_n < ll && exp_n > 0);
    kani::cover!(ok && exp_n > 0 && exp_n <= 8);
    kani::cover!(oob && addr == wc);
    post_read::<MODE>(&c);
}

pub fn write_obj<const MODE: u8, T: ByteValued>(val: T) {
    let mut c = ctx();
    let addr: usize = kani::any();
    let (wo, wc) = (c.wo, c.wc);
    let rec = &c.rec;
    let root = c.root;
    let sz = size_of::<T>();
    let exp_n = if sz == 0 || addr >= wc { 0 } else { core::cmp::min(sz, wc - addr) };
    let r = on_slice!(MODE, rec, root, &mut c.mem.0[wo..wo + wc], |s| s.write_obj(val, addr));
    if MODE == 0 {
        match &r {
            Ok(()) => assert!(exp_n == sz),
            Err(vm_memory::VolatileMemoryError::PartialBuffer { expected, completed }) => {
                assert!(exp_n < sz && *expected == sz && *completed == exp_n && addr < wc)
            }
            Err(e) => assert!(addr >= wc ),
        }
    }
    kani::cover!(r.is_ok() && (addr > 0 || sz == N));
    kani::cover!(r.is_ok() && addr as u128 + sz as u128 == wc as u128);
    kani::cover!(sz == 1 || matches!(r, Err(vm_memory::VolatileMemoryError::PartialBuffer { .. })));
    kani::cover!(r.is_err() && addr == usize::MAX);
    leak(r);
    post::<MODE>(&c, addr, exp_n, &|j| val.as_slice()[j]);
}

pub fn read_obj<const MODE: u8, T: ByteValued>() {
    let mut c = ctx();
    let addr: usize = kani::any();
    let (wo, wc) = (c.wo, c.wc);
    let rec = &c.rec;
    let root = c.root;
    let sz = size_of::<T>();
    let fits = addr as u128 + sz as u128 <= wc as u128;
    let r: Result<T, _> = on_slice!(MODE, rec, root, &mut c.mem.0[wo..wo + wc], |s| s.read_obj(addr));
    if MODE == 0 {
        match &r {
            Ok(v) => {
                assert!(fits);
                let b = v.as_slice();
                let i: usize = kani::any();
                kani::assume(i < sz);
                assert!(b[i] == c.before[wo + addr + i]);
            }
            Err(vm_memory::VolatileMemoryError::PartialBuffer { expected, completed }) => {
                assert!(!fits && addr < wc && *expected == sz && *completed == wc - addr)
            }
            Err(e) => assert!(addr >= wc ),
        }
    }
    kani::cover!(r.is_ok() && (addr > 0 || sz == N));
    kani::cover!(sz == 1 || (r.is_err() && addr < wc));
    leak(r);
    post_read::<MODE>(&c);
}

pub fn store_atomic<const MODE: u8, T: AtomicAccess>(val: T) {
    let mut c = ctx();
    let addr: usize = kani::any();
    let (wo, wc) = (c.wo, c.wc);
    let rec = &c.rec;
    let root = c.root;
    let sz = size_of::<T>();
    let base = c.mem.base();
    let fits = addr as u128 + sz as u128 <= wc as u128;
    let aligned = fits && (base + wo + addr) % align_of::<T::A>() == 0;
    let r = on_slice!(MODE, rec, root, &mut c.mem.0[wo..wo + wc], |s| s.store(val, addr, Ordering::SeqCst));
    if MODE == 0 {
        match &r {
            Ok(()) => assert!(aligned),
            Err(e) => {
                assert!(!aligned);
            }
        }
    }
    kani::cover!(r.is_ok() && addr > 0);
    kani::cover!(sz == 1 || (r.is_err() && fits));
    kani::cover!(r.is_err() && !fits);
    let n = if r.is_ok() { sz } else { 0 };
    leak(r);
    post::<MODE>(&c, addr, n, &|j| val.as_slice()[j]);
}

pub fn load_atomic<const MODE: u8, T: AtomicAccess>() {
    let mut c = ctx();
    let addr: usize = kani::any();
    let (wo, wc) = (c.wo, c.wc);
    let rec = &c.rec;
    let root = c.root;
    let sz = size_of::<T>();
    let base = c.mem.base();
    let fits = addr as u128 + sz as u128 <= wc as u128;
    let aligned = fits && (base + wo + addr) % align_of::<T::A>() == 0;
    let r: Result<T, _> = on_slice!(MODE, rec, root, &mut c.mem.0[wo..wo + wc], |s| s.load(addr, Ordering::SeqCst));
    if MODE == 0 {
        match &r {
            Ok(v) => {
                assert!(aligned);
                let b = v.as_slice();
                let i: usize = kani::any();
                kani::assume(i < sz);
                assert!(b[i] == c.before[wo + addr + i]);
            }
            Err(e) => assert!(!aligned),
        }
    }
    kani::cover!(r.is_ok() && addr > 0);
    kani::cover!(r.is_err());
    leak(r);
    post_read::<MODE>(&c);
}

/// typed reference obtained through get_ref, then store / load
pub fn ref_store_load<const MODE: u8, T: ByteValued>(val: T) {
    let mut c = ctx();
    let off: usize = kani::any();
    let (wo, wc) = (c.wo, c.wc);
    let rec = &c.rec;
    let root = c.root;
    let sz = size_of::<T>();
    let do_store: bool = kani::any();
    let mut loaded: Option<T> = None;
    let ok = on_slice!(MODE, rec, root, &mut c.mem.0[wo..wo + wc], |s| {
        let r = s.get_ref::<T>(off);
        let ok = match &r {
            Ok(vr) => {
                if do_store {
                    vr.store(val)
                } else {
                    loaded = Some(vr.load())
                }
                true
            }
            Err(_) => false,
        };
        leak(r);
        ok
    });
    kani::cover!(ok && do_store && (off > 0 || sz == N));
    kani::cover!(ok && !do_store);
    kani::cover!(!ok);
    if ok && do_store {
        post::<MODE>(&c, off, sz, &|j| val.as_slice()[j]);
    } else {
        if let Some(v) = loaded {
            if MODE == 0 {
                let b = v.as_slice();
                let i: usize = kani::any();
                kani::assume(i < sz);
                assert!(b[i] == c.before[wo + off + i]);
            }
        }
        post_read::<MODE>(&c);
    }
}

/// element array: get_array_ref(off, n) then store(i) / load(i)
pub fn array_store_load<const MODE: u8, T: ByteValued>(val: T) {
    let mut c = ctx();
    let off: usize = kani::any();
    let n: usize = kani::any();
    let i: usize = kani::any();
    let (wo, wc) = (c.wo, c.wc);
    let rec = &c.rec;
    let root = c.root;
    let sz = size_of::<T>();
    let do_store: bool = kani::any();
    let mut loaded: Option<T> = None;
    let ok = on_slice!(MODE, rec, root, &mut c.mem.0[wo..wo + wc], |s| {
        let r = s.get_array_ref::<T>(off, n);
        let ok = match &r {
            Ok(a) => {
                kani::assume(i < n);
                if do_store {
                    a.store(i, val)
                } else {
                    loaded = Some(a.load(i))
                }
                true
            }
            Err(_) => false,
        };
        leak(r);
        ok
    });
    kani::cover!(ok && do_store && (i > 0 || sz == N));
    kani::cover!(ok && !do_store && (i > 0 || sz == N));
    if ok && do_store {
        post::<MODE>(&c, off + i * sz, sz, &|j| val.as_slice()[j]);
    } else {
        if let Some(v) = loaded {
            if MODE == 0 {
                let b = v.as_slice();
                let k: usize = kani::any();
                kani::assume(k < sz);
                assert!(b[k] == c.before[wo + off + i * sz + k]);
            }
        }
        post_read::<MODE>(&c);
    }
}

pub const AL: usize = 4; // local element arrays: up to 4 elements

/// copy_from: local elements -> guest, via the slice (`via_array == false`) or via an array ref
pub fn copy_from<const MODE: u8, T: ByteValued>(vals: [T; AL]) {
    let mut c = ctx();
    let k: usize = kani::any();
    kani::assume(k <= AL);
    let off: usize = kani::any();
    let n: usize = kani::any();
    let via_array: bool = kani::any();
    let (wo, wc) = (c.wo, c.wc);
    let rec = &c.rec;
    let root = c.root;
    let sz = size_of::<T>();
    let buf = &vals[..k];
    let mut lo = 0usize;
    let mut cnt = 0usize;
    on_slice!(MODE, rec, root, &mut c.mem.0[wo..wo + wc], |s| {
        if via_array {
            let r = s.get_array_ref::<T>(off, n);
            if let Ok(a) = &r {
                a.copy_from(buf);
                lo = off;
                cnt = core::cmp::min(n, k);
            }
            leak(r);
        } else {
            s.copy_from(buf);
            lo = 0;
            cnt = core::cmp::min(wc / sz, k);
        }
    });
    kani::cover!(via_array && cnt > 0 && lo > 0);
    kani::cover!(!via_array && cnt > 1);
    kani::cover!(!via_array && cnt < k);
    kani::cover!(via_array && cnt < k && cnt > 0);
    // expected bytes: the first cnt elements, in order
    post::<MODE>(&c, lo, cnt * sz, &|j| vals[j / sz].as_slice()[j % sz]);
}

/// copy_to: guest -> local elements, returns the number of elements copied
pub fn copy_to<const MODE: u8, T: ByteValued>(vals: [T; AL]) {
    let mut c = ctx();
    let mut out = vals;
    let k: usize = kani::any();
    kani::assume(k <= AL);
    let off: usize = kani::any();
    let n: usize = kani::any();
    let via_array: bool = kani::any();
    let (wo, wc) = (c.wo, c.wc);
    let rec = &c.rec;
    let root = c.root;
    let sz = size_of::<T>();
    let mut lo = 0usize;
    let mut cnt = 0usize;
    let mut ret = 0usize;
    let mut done = false;
    {
        let buf = &mut out[..k];
        on_slice!(MODE, rec, root, &mut c.mem.0[wo..wo + wc], |s| {
            if via_array {
                let r = s.get_array_ref::<T>(off, n);
                if let Ok(a) = &r {
                    ret = a.copy_to(buf);
                    lo = off;
                    cnt = core::cmp::min(n, k);
                    done = true;
                }
                leak(r);
            } else {
                ret = s.copy_to(buf);
                lo = 0;
                cnt = core::cmp::min(wc / sz, k);
                done = true;
            }
        });
    }
    kani::cover!(done && via_array && cnt > 0 && lo > 0);
    kani::cover!(done && !via_array && cnt > 1);
    kani::cover!(done && cnt < k);
    if MODE == 0 && done {
        assert!(ret == cnt);
        let i: usize = kani::any();
        kani::assume(i < AL * sz);
        let ob = out[i / sz].as_slice()[i % sz];
        if i < cnt * sz {
            assert!(ob == c.before[wo + lo + i]);
        } else {
            assert!(ob == vals[i / sz].as_slice()[i % sz]);
        }
    }
    post_read::<MODE>(&c);
}

/// slice-to-slice copy: source = another buffer, destination = the container (marks land on the destination)
pub fn copy_to_volatile_slice<const MODE: u8>() {
    let mut c = ctx();
    let mut src = Aligned::<N>::any();
    let src_copy = src.0;
    let (so, sc) = any_window(N);
    let (wo, wc) = (c.wo, c.wc);
    let rec = &c.rec;
    let root = c.root;
    let via_array: bool = kani::any();
    let n = core::cmp::min(sc, wc);
    on_slice!(MODE, rec, root, &mut c.mem.0[wo..wo + wc], |d| {
        let s = VolatileSlice::from(&mut src.0[so..so + sc]);
        if via_array {
            let a: VolatileArrayRef<u8> = s.into();
            a.copy_to_volatile_slice(d)
        } else {
            s.copy_to_volatile_slice(d)
        }
    });
    kani::cover!(n > 8 && sc < wc);
    kani::cover!(n > 0 && sc > wc);
    kani::cover!(n == 0);
    if MODE == 0 {
        let i: usize = kani::any();
        kani::assume(i < N);
        assert!(src.0[i] == src_copy[i]);
    }
    post::<MODE>(&c, 0, n, &|j| src_copy[so + j]);
}

/// stream -> memory through the Bytes stream forms, source = in-memory byte slice (`ReadVolatile for &[u8]`)
pub fn stream_read<const MODE: u8, const EXACT: bool>() {
    let mut c = ctx();
    let (loc, lo, ll) = local();
    let addr: usize = kani::any();
    let count: usize = kani::any();
    kani::assume(count <= L);
    let (wo, wc) = (c.wo, c.wc);
    let rec = &c.rec;
    let root = c.root;
    let src_all = &loc.0[lo..lo + ll];
    let mut src: &[u8] = src_all;
    let mut n = 0usize;
    let (mut ok_, mut errfit) = (false, false);
    if EXACT {
        let r = on_slice!(MODE, rec, root, &mut c.mem.0[wo..wo + wc], |s| s.read_exact_volatile_from(addr, &mut src, count));
        let fits = addr as u128 + count as u128 <= wc as u128;
        if MODE == 0 {
            assert!(r.is_ok() == (fits && count <= ll));
        }
        if r.is_ok() {
            n = count;
        }
        ok_ = r.is_ok();
        errfit = r.is_err() && fits;
        leak(r);
    } else {
        let r = on_slice!(MODE, rec, root, &mut c.mem.0[wo..wo + wc], |s| s.read_volatile_from(addr, &mut src, count));
        if MODE == 0 {
            match &r {
                Ok(k) => assert!(addr <= wc && *k == core::cmp::min(core::cmp::min(count, wc - addr), ll)),
                Err(_) => assert!(addr > wc),
            }
        }
        if let Ok(k) = &r {
            n = *k;
        }
        ok_ = r.is_ok();
        leak(r);
    }
    kani::cover!(!EXACT || (ok_ && count > 8));
    kani::cover!(!EXACT || errfit);
    kani::cover!(EXACT || (ok_ && n > 0 && n < count));
    kani::cover!(EXACT || (ok_ && n == count && count > 8));
    if MODE == 0 {
        assert!(src.len() == ll - n); // consumed exactly what was stored
    }
    post::<MODE>(&c, addr, n, &|j| src_all[j]);
}

/// memory -> stream (`WriteVolatile for &mut [u8]`): a read-type operation on guest memory
pub fn stream_write<const MODE: u8>() {
    let mut c = ctx();
    let (mut loc, lo, ll) = local();
    let addr: usize = kani::any();
    let count: usize = kani::any();
    kani::assume(count <= L);
    let (wo, wc) = (c.wo, c.wc);
    let rec = &c.rec;
    let root = c.root;
    let mut n = 0usize;
    {
        let mut dst: &mut [u8] = &mut loc.0[lo..lo + ll];
        let r = on_slice!(MODE, rec, root, &mut c.mem.0[wo..wo + wc], |s| s.write_volatile_to(addr, &mut dst, count));
        if MODE == 0 {
            match &r {
                Ok(k) => assert!(addr <= wc && *k == core::cmp::min(core::cmp::min(count, wc - addr), ll)),
                Err(_) => assert!(addr > wc),
            }
        }
        if let Ok(k) = &r {
            n = *k;
        }
        kani::cover!(r.is_ok() && n > 0);
        leak(r);
    }
    if MODE == 0 {
        let k: usize = kani::any();
        kani::assume(k < n);
        assert!(loc.0[lo + k] == c.before[wo + addr + k]);
    }
    post_read::<MODE>(&c);
}

/// slice-to-slice copy from an element array of multi-byte elements: `min(elements * size, destination length)` BYTES move
pub fn array_copy_to_volatile_slice<const MODE: u8, T: ByteValued>() {
    let mut c = ctx();
    let mut src = Aligned::<N>::any();
    let src_copy = src.0;
    let (so, cnt): (usize, usize) = (kani::any(), kani::any());
    let sz = size_of::<T>();
    kani::assume(so <= N && cnt <= (N - so) / sz);
    let (wo, wc) = (c.wo, c.wc);
    let rec = &c.rec;
    let root = c.root;
    let n = core::cmp::min(cnt * sz, wc);
    on_slice!(MODE, rec, root, &mut c.mem.0[wo..wo + wc], |d| {
        let s = VolatileSlice::from(&mut src.0[so..]);
        let r = s.get_array_ref::<T>(0, cnt);
        match &r {
            Ok(a) => a.copy_to_volatile_slice(d),
            Err(_) => assert!(false),
        }
        leak(r);
    });
    kani::cover!(cnt >= 1 && cnt * sz < wc);
    kani::cover!(cnt * sz > wc && wc > 0);
    kani::cover!(n > 8);
    post::<MODE>(&c, 0, n, &|j| src_copy[so + j]);
}
