//! Contract-level mock `GuestMemory` (E7-L1): an array of <= 3 regions with linear `find_region`; a region is a raw
//! pointer + length + recording bitmap whose `Bytes<MemoryRegionAddress>` methods implement the documented region
//! contract with the obvious byte loop (buffer forms) or by delegating to a real `VolatileSlice` over its bytes
//! (stream, atomic and slice forms - exactly what `GuestRegionMmap` does).  Everything *above* the region - the default
//! methods of `GuestMemory`/`GuestMemoryRegion` and the blanket `impl Bytes<GuestAddress>` - is the crate's real code.
use crate::common::*;
use crate::recorder::Recorder;
use core::sync::atomic::Ordering;
use vm_memory::bitmap::{Bitmap, BS};
use vm_memory::guest_memory::{Error as GErr, Result as GResult};
use vm_memory::{
    AtomicAccess, Bytes, GuestAddress, GuestMemory, GuestMemoryRegion, GuestUsize, MemoryRegionAddress, ReadVolatile,
    VolatileSlice, WriteVolatile,
};

pub struct MockRegion {
    pub start: u64,
    pub len: u64,
    pub data: *mut u8,
    pub rec: Recorder,
}

impl MockRegion {
    fn vs(&self) -> VolatileSlice<'_, BS<'_, Recorder>> {
        // SAFETY: `data` points to `len` live bytes owned by the harness for the lifetime of the mock.
        unsafe { VolatileSlice::with_bitmap(self.data, self.len as usize, self.rec.slice_at(0), None) }
    }
}

impl Bytes<MemoryRegionAddress> for MockRegion {
    type E = GErr;

    fn write(&self, buf: &[u8], addr: MemoryRegionAddress) -> GResult<usize> {
        if buf.is_empty() {
            return Ok(0);
        }
        if addr.0 >= self.len {
            return Err(GErr::InvalidBackendAddress);
        }
        let n = core::cmp::min(buf.len(), (self.len - addr.0) as usize);
        let mut i = 0;
        while i < n {
            // SAFETY: addr + i < len
            unsafe { *self.data.add(addr.0 as usize + i) = buf[i] };
            i += 1;
        }
        self.rec.mark_dirty(addr.0 as usize, n);
        Ok(n)
    }

    fn read(&self, buf: &mut [u8], addr: MemoryRegionAddress) -> GResult<usize> {
        if buf.is_empty() {
            return Ok(0);
        }
        if addr.0 >= self.len {
            return Err(GErr::InvalidBackendAddress);
        }
        let n = core::cmp::min(buf.len(), (self.len - addr.0) as usize);
        let mut i = 0;
        while i < n {
            // SAFETY: addr + i < len
            buf[i] = unsafe { *self.data.add(addr.0 as usize + i) };
            i += 1;
        }
        Ok(n)
    }

    fn write_slice(&self, buf: &[u8], addr: MemoryRegionAddress) -> GResult<()> {
        let n = self.write(buf, addr)?;
        if n != buf.len() {
            return Err(GErr::PartialBuffer { expected: buf.len(), completed: n });
        }
        Ok(())
    }

    fn read_slice(&self, buf: &mut [u8], addr: MemoryRegionAddress) -> GResult<()> {
        let n = self.read(buf, addr)?;
        if n != buf.len() {
            return Err(GErr::PartialBuffer { expected: buf.len(), completed: n });
        }
        Ok(())
    }

    fn read_volatile_from<F: ReadVolatile>(&self, addr: MemoryRegionAddress, src: &mut F, count: usize) -> GResult<usize> {
        self.vs().read_volatile_from(addr.0 as usize, src, count).map_err(Into::into)
    }

    fn read_exact_volatile_from<F: ReadVolatile>(&self, addr: MemoryRegionAddress, src: &mut F, count: usize) -> GResult<()> {
        self.vs().read_exact_volatile_from(addr.0 as usize, src, count).map_err(Into::into)
    }

    fn write_volatile_to<F: WriteVolatile>(&self, addr: MemoryRegionAddress, dst: &mut F, count: usize) -> GResult<usize> {
        self.vs().write_volatile_to(addr.0 as usize, dst, count).map_err(Into::into)
    }

    fn write_all_volatile_to<F: WriteVolatile>(&self, addr: MemoryRegionAddress, dst: &mut F, count: usize) -> GResult<()> {
        self.vs().write_all_volatile_to(addr.0 as usize, dst, count).map_err(Into::into)
    }

    fn store<T: AtomicAccess>(&self, val: T, addr: MemoryRegionAddress, order: Ordering) -> GResult<()> {
        self.vs().store(val, addr.0 as usize, order).map_err(Into::into)
    }

    fn load<T: AtomicAccess>(&self, addr: MemoryRegionAddress, order: Ordering) -> GResult<T> {
        self.vs().load(addr.0 as usize, order).map_err(Into::into)
    }
}

impl GuestMemoryRegion for MockRegion {
    type B = Recorder;

    fn len(&self) -> GuestUsize {
        self.len
    }
    fn start_addr(&self) -> GuestAddress {
        GuestAddress(self.start)
    }
    fn bitmap(&self) -> &Recorder {
        &self.rec
    }
    fn get_host_address(&self, addr: MemoryRegionAddress) -> GResult<*mut u8> {
        if addr.0 < self.len {
            Ok(self.data.wrapping_add(addr.0 as usize))
        } else {
            Err(GErr::InvalidBackendAddress)
        }
    }
    fn get_slice(&self, offset: MemoryRegionAddress, count: usize) -> GResult<VolatileSlice<BS<Recorder>>> {
        self.vs().subslice(offset.0 as usize, count).map_err(Into::into)
    }
}

pub const MAXR: usize = 3;

pub struct MockMem {
    pub regions: [MockRegion; MAXR],
    pub n: usize,
}

impl GuestMemory for MockMem {
    type R = MockRegion;

    fn num_regions(&self) -> usize {
        self.n
    }
    fn find_region(&self, addr: GuestAddress) -> Option<&MockRegion> {
        let mut i = 0;
        while i < MAXR {
            if i < self.n {
                let r = &self.regions[i];
                if addr.0 >= r.start && addr.0 - r.start < r.len {
                    return Some(r);
                }
            }
            i += 1;
        }
        None
    }
    fn iter(&self) -> impl Iterator<Item = &MockRegion> {
        self.regions[..self.n].iter()
    }
}

pub const RSZ: usize = 4; // max region size in the data-path harnesses
pub const POOL: usize = MAXR * RSZ;

/// A symbolic layout of `n` sorted, disjoint regions (1 <= size <= RSZ, 64-bit bases, ends below 2^64 - 1 as
/// `GuestRegionMmap::new` enforces) over `pool`; region i's bytes are pool[i*RSZ .. i*RSZ + size_i].
pub fn any_layout(pool: &mut [u8; POOL], n: usize) -> MockMem {
    any_layout_max(pool, n, RSZ as u64)
}

/// same with sizes up to `max` (only for harnesses that never touch region bytes)
pub fn any_layout_max(pool: &mut [u8; POOL], n: usize, max: u64) -> MockMem {
    let p = pool.as_mut_ptr();
    let mut regions = [
        MockRegion { start: 0, len: 1, data: p, rec: Recorder::new() },
        MockRegion { start: 0, len: 1, data: p.wrapping_add(RSZ), rec: Recorder::new() },
        MockRegion { start: 0, len: 1, data: p.wrapping_add(2 * RSZ), rec: Recorder::new() },
    ];
    let mut prev_end: u128 = 0; // one past the last mapped address so far
    let mut i = 0;
    while i < MAXR {
        if i < n {
            let start: u64 = kani::any();
            let len: u64 = kani::any();
            kani::assume(len >= 1 && len <= max);
            kani::assume(start as u128 >= prev_end);
            kani::assume(start as u128 + len as u128 <= u64::MAX as u128); // base + size must not overflow
            regions[i].start = start;
            regions[i].len = len;
            prev_end = start as u128 + len as u128;
        }
        i += 1;
    }
    MockMem { regions, n }
}

impl MockMem {
    /// set-theoretic reading: which region (index) maps guest address a, if any
    pub fn owner(&self, a: u128) -> Option<usize> {
        let mut i = 0;
        let mut r = None;
        while i < MAXR {
            if i < self.n {
                let g = &self.regions[i];
                if a >= g.start as u128 && a < g.start as u128 + g.len as u128 {
                    r = Some(i);
                }
            }
            i += 1;
        }
        r
    }
    /// length of the run of consecutively mapped addresses starting at a, capped at cap (cap <= 8)
    pub fn run(&self, a: u64, cap: usize) -> usize {
        let mut k = 0;
        let mut going = true;
        let mut i = 0;
        while i < 8 {
            if going && i < cap {
                if self.owner(a as u128 + i as u128).is_some() && a as u128 + i as u128 <= u64::MAX as u128 {
                    k = i + 1;
                } else {
                    going = false;
                }
            }
            i += 1;
        }
        k
    }
}
