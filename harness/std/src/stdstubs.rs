//! Models of two std functions whose real implementations CBMC cannot get through (DESIGN E10).  They are part of
//! the environment (std is trusted); the closures passed to them and everything around them is the crate's real code.
use std::alloc::Allocator;

/// `alloc::slice::stable_sort` (what `sort_by_key` calls): std's driftsort is replaced by an insertion sort, which is
/// stable and sorts.
pub fn stable_sort_stub<T, F: FnMut(&T, &T) -> bool>(v: &mut [T], mut is_less: F) {
    let n = v.len();
    let mut i = 1;
    while i < n {
        let mut j = i;
        while j > 0 && is_less(&v[j], &v[j - 1]) {
            v.swap(j, j - 1);
            j -= 1;
        }
        i += 1;
    }
}

/// `Vec::remove`: std's `ptr::copy` with a symbolic index stalls CBMC; rotate the element to the end with swaps
/// (keeps the order of the others) and pop it.
pub fn vec_remove_stub<T, A: Allocator>(v: &mut Vec<T, A>, index: usize) -> T {
    let n = v.len();
    assert!(index < n, "removal index out of bounds");
    assert!(n <= 4, "vec_remove_stub models vectors of at most 4 elements");
    // swaps at concrete positions only (a loop starting at a symbolic index makes CBMC's array encoding explode)
    if index == 0 {
        if n > 1 {
            v.swap(0, 1);
        }
        if n > 2 {
            v.swap(1, 2);
        }
        if n > 3 {
            v.swap(2, 3);
        }
    } else if index == 1 {
        if n > 2 {
            v.swap(1, 2);
        }
        if n > 3 {
            v.swap(2, 3);
        }
    } else if index == 2 {
        if n > 3 {
            v.swap(2, 3);
        }
    }
    v.pop().unwrap()
}
