#!/usr/bin/env python3
"""Development aid: run a list of (mutant, properties) pairs through mutate.py and summarise."""
import subprocess, sys, json, os
plan = json.load(open(sys.argv[1]))
out = {}
for m, pids in plan.items():
    r = subprocess.run(["./mutate.py", "mutants/%s.diff" % m] + pids, capture_output=True, text=True)
    res = [l for l in r.stdout.splitlines() if l.startswith("== ") or l.startswith("SUMMARY")]
    print("\n".join(res), flush=True)
    out[m] = res
json.dump(out, open("work/sweep-result.json", "w"), indent=1)
