//! C09 - the atomic bitmap behaves as a set of page numbers under every operation (and C05(b)/C16(b): the page
//! arithmetic of range marking is exact).
//!
//! Grid point = (page size P, byte size S), both concrete (container shapes concrete, E10).  Per query: pre-state =
//! three symbolic pages marked through set_bit (every pair of pages can be in any of the four on/off combinations), one operation with unconstrained 64-bit arguments, then read-out at a *symbolic* page index /
//! byte address (stands for all of them), compared with a set model.
use core::num::NonZeroUsize;
use vm_memory::bitmap::{ArcSlice, AtomicBitmap, Bitmap, BitmapSlice, RefSlice};

fn pages(s: usize, p: usize) -> usize {
    if s == 0 { 0 } else { (s - 1) / p + 1 }
}

/// does byte range (start, len) overlap page q (page size p)?  saturating at usize::MAX as documented
fn overlaps(start: usize, len: usize, p: usize, q: usize) -> bool {
    if len == 0 {
        return false;
    }
    let first = start / p;
    let last = start.saturating_add(len - 1) / p;
    q >= first && q <= last
}

struct Pre {
    b1: usize,
    b2: usize,
    b3: usize,
}

impl Pre {
    fn any() -> Self {
        Pre { b1: kani::any(), b2: kani::any(), b3: kani::any() }
    }
    fn apply(&self, b: &AtomicBitmap) {
        b.set_bit(self.b1);
        b.set_bit(self.b2);
        b.set_bit(self.b3);
    }
    fn has(&self, _p: usize, n: usize, q: usize) -> bool {
        q < n && (q == self.b1 || q == self.b2 || q == self.b3)
    }
}

fn mk<const P: usize, const S: usize>() -> AtomicBitmap {
    let b = AtomicBitmap::new(S, NonZeroUsize::new(P).unwrap());
    assert!(b.len() == pages(S, P));
    assert!(b.byte_size() == S);
    b
}

/// read-out at a symbolic page index and a symbolic byte address
fn readout<const P: usize>(b: &AtomicBitmap, model: &dyn Fn(usize) -> bool) {
    let q: usize = kani::any();
    assert!(b.is_bit_set(q) == model(q));
    let a: usize = kani::any();
    assert!(b.is_addr_set(a) == model(a / P));
    assert!(b.dirty_at(a) == model(a / P));
}

pub fn set_range<const P: usize, const S: usize, const SHORT: bool>() {
    let b = mk::<P, S>();
    let n = pages(S, P);
    let pre = Pre::any();
    pre.apply(&b);
    let (st, ln): (usize, usize) = (kani::any(), kani::any());
    if SHORT {
        kani::assume(ln <= 2 * P); // at most 3 pages per range; the start is anywhere in the 64-bit space
    }
    // `mark_dirty` (the Bitmap trait entry point) on small grids, `set_addr_range` on the others
    if !SHORT && S <= 64 { b.mark_dirty(st, ln) } else { b.set_addr_range(st, ln) }
    readout::<P>(&b, &|q| q < n && (pre.has(P, n, q) || overlaps(st, ln, P, q)));
    kani::cover!(n == 0 || (ln > 0 && st / P == n - 1));
    kani::cover!(ln > 0 && st / P >= n);
    kani::cover!(ln == 0);
    kani::cover!(n <= 1 || (ln > 1 && st % P == P - 1 && (st / P).saturating_add(1) < n));
    kani::cover!(st.checked_add(ln).is_none());
}

pub fn reset_range<const P: usize, const S: usize, const SHORT: bool>() {
    let b = mk::<P, S>();
    let n = pages(S, P);
    let pre = Pre::any();
    pre.apply(&b);
    let (st, ln): (usize, usize) = (kani::any(), kani::any());
    if SHORT {
        kani::assume(ln <= 2 * P); // at most 3 pages per range; the start is anywhere in the 64-bit space
    }
    b.reset_addr_range(st, ln);
    readout::<P>(&b, &|q| pre.has(P, n, q) && !overlaps(st, ln, P, q));
    kani::cover!(n == 0 || (ln > 0 && pre.has(P, n, st / P)));
    kani::cover!(ln == 0);
    kani::cover!(st.checked_add(ln).is_none());
}

pub fn bits<const P: usize, const S: usize>() {
    let b = mk::<P, S>();
    let n = pages(S, P);
    let pre = Pre::any();
    pre.apply(&b);
    let i: usize = kani::any();
    let set: bool = kani::any();
    if set { b.set_bit(i) } else { b.reset_bit(i) }
    readout::<P>(&b, &|q| if q == i { set && q < n } else { pre.has(P, n, q) });
    kani::cover!(set && i >= n);
    kani::cover!(n == 0 || (set && i == n - 1));
    kani::cover!(n == 0 || (!set && pre.has(P, n, i)));
}

pub fn harvest<const P: usize, const S: usize>() {
    let b = mk::<P, S>();
    let n = pages(S, P);
    let pre = Pre::any();
    pre.apply(&b);
    let plain_reset: bool = kani::any();
    if plain_reset {
        b.reset();
    } else {
        let v = b.get_and_reset();
        assert!(v.len() == (n + 63) / 64);
        // bit q of the returned words is the pre-state of page q; nothing at or beyond the page count
        let mut got = false;
        let mut probed = false;
        if !v.is_empty() {
            let q: usize = kani::any();
            kani::assume(q < v.len() * 64);
            got = (v[q >> 6] >> (q & 63)) & 1 == 1;
            assert!(got == pre.has(P, n, q));
            probed = true;
        }
        kani::cover!(n == 0 || got);
        kani::cover!(n == 0 || (probed && !got));
        core::mem::forget(v);
    }
    readout::<P>(&b, &|_| false);
}

pub fn clone_independent<const P: usize, const S: usize, const SHORT: bool>() {
    let b = mk::<P, S>();
    let n = pages(S, P);
    let pre = Pre::any();
    pre.apply(&b);
    let c = b.clone();
    assert!(c.len() == n && c.byte_size() == S);
    let (st, ln): (usize, usize) = (kani::any(), kani::any());
    if SHORT {
        kani::assume(ln <= 2 * P); // at most 3 pages per range; the start is anywhere in the 64-bit space
    }
    let mutate_clone: bool = kani::any();
    if mutate_clone { c.set_addr_range(st, ln) } else { b.set_addr_range(st, ln) }
    let after = |q: usize| q < n && (pre.has(P, n, q) || overlaps(st, ln, P, q));
    let before = |q: usize| pre.has(P, n, q);
    if mutate_clone {
        readout::<P>(&c, &after);
        readout::<P>(&b, &before);
    } else {
        readout::<P>(&b, &after);
        readout::<P>(&c, &before);
    }
    kani::cover!(n == 0 || (ln > 0 && st / P < n && !pre.has(P, n, st / P)));
    core::mem::forget(c);
}

pub fn enlarge<const P: usize, const S: usize, const ADD: usize>() {
    let mut b = mk::<P, S>();
    let n = pages(S, P);
    let pre = Pre::any();
    pre.apply(&b);
    b.enlarge(ADD);
    let n2 = pages(S + ADD, P);
    assert!(b.len() == n2 && b.byte_size() == S + ADD);
    readout::<P>(&b, &|q| pre.has(P, n, q));
    // the new pages are usable
    let i: usize = kani::any();
    b.set_bit(i);
    readout::<P>(&b, &|q| (q == i && q < n2) || pre.has(P, n, q));
    kani::cover!(n2 == n || (i >= n && i < n2));
    kani::cover!(n == 0 || pre.has(P, n, n - 1));
}

/// a slice at an offset is the same set viewed through shifted addresses; slices of slices add their offsets
pub fn slices<const P: usize, const S: usize, const SHORT: bool>() {
    let b = mk::<P, S>();
    let n = pages(S, P);
    let pre = Pre::any();
    pre.apply(&b);
    let (o1, o2, off, ln): (usize, usize, usize, usize) = (kani::any(), kani::any(), kani::any(), kani::any());
    if SHORT {
        kani::assume(ln <= 2 * P);
    }
    let depth2: bool = kani::any();
    let base = if depth2 { o1.wrapping_add(o2) } else { o1 };
    let s1: RefSlice<AtomicBitmap> = b.slice_at(o1);
    let s = if depth2 { s1.slice_at(o2) } else { s1 };
    // reading through the slice
    let a: usize = kani::any();
    assert!(s.dirty_at(a) == pre.has(P, n, base.wrapping_add(a) / P));
    // writing through the slice
    s.mark_dirty(off, ln);
    let st = base.wrapping_add(off);
    readout::<P>(&b, &|q| q < n && (pre.has(P, n, q) || overlaps(st, ln, P, q)));
    kani::cover!(n == 0 || (depth2 && o1 > 0 && o2 > 0 && ln > 0 && st / P < n));
    kani::cover!(n == 0 || (!depth2 && ln > 0 && st / P == n - 1));
    kani::cover!(o1.checked_add(off).is_none());
}

macro_rules! grid_point {
    ($m:ident, $P:expr, $S:expr, $U:expr, $SHORT:expr) => {
        pub mod $m {
            #[kani::proof]
            #[kani::unwind($U)]
            fn set_range() {
                super::set_range::<{ $P }, { $S }, { $SHORT }>()
            }
            #[kani::proof]
            #[kani::unwind($U)]
            fn reset_range() {
                super::reset_range::<{ $P }, { $S }, { $SHORT }>()
            }
            #[kani::proof]
            #[kani::unwind($U)]
            fn bits() {
                super::bits::<{ $P }, { $S }>()
            }
            #[kani::proof]
            #[kani::unwind($U)]
            fn harvest() {
                super::harvest::<{ $P }, { $S }>()
            }
            #[kani::proof]
            #[kani::unwind($U)]
            fn clone_independent() {
                super::clone_independent::<{ $P }, { $S }, { $SHORT }>()
            }
            #[kani::proof]
            #[kani::unwind($U)]
            fn slices() {
                super::slices::<{ $P }, { $S }, { $SHORT }>()
            }
            #[kani::proof]
            #[kani::unwind($U)]
            fn enlarge_by_1() {
                super::enlarge::<{ $P }, { $S }, 1>()
            }
            #[kani::proof]
            #[kani::unwind($U)]
            fn enlarge_by_page() {
                super::enlarge::<{ $P }, { $S }, { $P }>()
            }
        }
    };
}

// quick grid (q_*): small bitmaps with unrestricted ranges; 64/65/129-page bitmaps (word boundaries) with ranges of at
// most 3 pages starting anywhere (SHORT).  thorough grid (t_*): the large bitmaps with unrestricted ranges.
grid_point!(q_p1_s0, 1, 0, 4, false);
grid_point!(q_p1_s1, 1, 1, 4, false);
grid_point!(q_p1_s2, 1, 2, 5, false);
grid_point!(q_p3_s0, 3, 0, 4, false);
grid_point!(q_p3_s1, 3, 1, 4, false);
grid_point!(q_p3_s4, 3, 4, 5, false);
grid_point!(q_p7_s64, 7, 64, 13, false); // 10 pages, last one partial
grid_point!(q_p4096_s1, 4096, 1, 4, false);
grid_point!(q_p4096_s4097, 4096, 4097, 5, false);
grid_point!(q_p1_s64_short, 1, 64, 6, true);
grid_point!(q_p3_s193_short, 3, 193, 6, true);
grid_point!(q_p4096_w1_short, 4096, 64 * 4096, 6, true);
grid_point!(q_p4096_w1p_short, 4096, 64 * 4096 + 1, 6, true);
grid_point!(q_p4096_w2p_short, 4096, 128 * 4096 + 1, 6, true);
grid_point!(t_p1_s64, 1, 64, 67, false);
grid_point!(t_p1_s65, 1, 65, 68, false);
grid_point!(t_p3_s192, 3, 192, 67, false);
grid_point!(t_p3_s193, 3, 193, 68, false);
grid_point!(t_p4096_w1, 4096, 64 * 4096, 67, false);
grid_point!(t_p4096_w1p, 4096, 64 * 4096 + 1, 68, false);
grid_point!(t_p16_s33, 16, 16 * 33, 36, false);

/// the other tracked bitmap flavours: `ArcSlice` (BaseSlice over an Arc), `Option<B>`, `()`
/// (`AtomicBitmapArc` is not exported by the crate and therefore not reachable for a client)
pub fn flavours<const P: usize, const S: usize>() {
    use std::sync::Arc;
    use vm_memory::bitmap::NewBitmap;
    let n = pages(S, P);
    let arc = Arc::new(mk::<P, S>());
    let pre = Pre::any();
    pre.apply(&arc);
    let (o1, o2, off, ln): (usize, usize, usize, usize) = (kani::any(), kani::any(), kani::any(), kani::any());
    kani::assume(ln <= 2 * P);
    let which: u8 = kani::any();
    kani::assume(which < 4);
    let st = o1.wrapping_add(o2).wrapping_add(off);
    match which {
        0 => {
            // ArcSlice of ArcSlice: offsets add up (wrapping)
            let s: ArcSlice<AtomicBitmap> = ArcSlice::new(arc.clone(), o1).slice_at(o2);
            let a: usize = kani::any();
            assert!(s.dirty_at(a) == pre.has(P, n, o1.wrapping_add(o2).wrapping_add(a) / P));
            s.mark_dirty(off, ln);
            readout::<P>(&arc, &|q| q < n && (pre.has(P, n, q) || overlaps(st, ln, P, q)));
            core::mem::forget(s);
        }
        1 => {
            // a cloned slice views the SAME set: a mark through the clone is seen through the original
            let s1: ArcSlice<AtomicBitmap> = ArcSlice::new(arc.clone(), o1);
            let s2 = s1.clone();
            s2.mark_dirty(o2.wrapping_add(off), ln);
            let a: usize = kani::any();
            let q = o1.wrapping_add(a) / P;
            assert!(s1.dirty_at(a) == (q < n && (pre.has(P, n, q) || overlaps(st, ln, P, q))));
            core::mem::forget(s1);
            core::mem::forget(s2);
        }
        2 => {
            // Option<B>: Some delegates (also through slices), None tracks nothing
            let some: Option<AtomicBitmap> = Some(mk::<P, S>());
            some.slice_at(o1).mark_dirty(off, ln);
            let st1 = o1.wrapping_add(off);
            let a: usize = kani::any();
            assert!(some.dirty_at(a) == (a / P < n && overlaps(st1, ln, P, a / P)));
            let none: Option<AtomicBitmap> = None;
            none.mark_dirty(off, ln);
            assert!(none.slice_at(o1).is_none() && !none.dirty_at(a));
            core::mem::forget(some);
        }
        _ => {
            // (): nothing is ever dirty
            let u = ();
            u.mark_dirty(off, ln);
            u.slice_at(o1).mark_dirty(off, ln);
            assert!(!u.dirty_at(kani::any()));
            let _ = <() as NewBitmap>::with_len(S);
        }
    }
    kani::cover!(which == 0 && ln > 0 && st / P < n && o1 > 0 && o2 > 0);
    kani::cover!(which == 1 && ln > 0 && st / P < n);
    kani::cover!(which == 2 && ln > 0);
    kani::cover!(which == 3);
    core::mem::forget(arc);
}

#[kani::proof]
#[kani::unwind(6)]
fn q_flavours_p3_s4() {
    flavours::<3, 4>()
}
#[kani::proof]
#[kani::unwind(6)]
fn q_flavours_p4096_w1p() {
    flavours::<4096, { 64 * 4096 + 1 }>()
}
