"""Prose for MANIFEST.json (kept next to spec.py; gen_manifest.py joins them)."""

HOOKS = {
    "guard": "none",
    "enable": "no source hooks: harness crates under /verif/harness depend on /repo by path and instrument it from outside with Kani stubs of std functions (core::ptr::{read,write}_volatile, core::sync::atomic::atomic_*) and -Z c-ffi libc models; /repo is compiled unmodified",
    "baseline_off_cmd": "cd /repo && cargo test --workspace --no-fail-fast --offline",
    "source_commits": [],
    "add_only": True,
}

NOTES = ("All checks are bounded symbolic execution of the real crate (Kani/CBMC). Exit 0 = all queries UNSAT for the "
         "negated assertions within the stated bounds, 1 = VIOLATION line(s), 2 = inconclusive (engine error, timeout, OOM, "
         "unwinding bound too small, vacuity witness unreachable, counterexample not reproducing natively). "
         "Bounds, stubs and models per property are in DESIGN.md §4 and in each evidence file.")

NOT_APPLICABLE = {
    "C11": "arc-swap (GuestMemoryAtomic) cannot be compiled by kani-compiler 0.68 (internal compiler error in intrinsics.rs:243 on ArcSwap::new/load/store) and the property quantifies over thread interleavings of a multi-word hazard-pointer protocol in a third-party crate that Kani (no concurrency) cannot execute; a hand-written SMT model would verify the model, not the code (DESIGN.md §5)",
}

_T = "Kani proof harness -> CBMC bounded model checking (SAT, CaDiCaL) over the compiled crate"

TEXT = {
    "C19": {
        "level": "Every checked_/overflowing_/unchecked_ add, sub, offset_from, align_up, mask, bit-op and ordering method of GuestAddress and MemoryRegionAddress is compared with 128-bit exact arithmetic for ALL 64-bit operands and all 64 power-of-two alignments in one solver query each; no bound on inputs, so within the SAT encoding this is exhaustive over 2^128 operand pairs - the right level because the failures live at a handful of values near 0, 2^63, 2^64.",
        "design_ref": "DESIGN.md §4 C19",
        "note": "trusts Kani's translation of Rust integer ops to CBMC bit-vectors; oracle = u128 arithmetic in the harness; non-power-of-two alignments (documented panic) excluded",
        "technique": _T + "; differential against 128-bit exact arithmetic, inputs unconstrained",
    },
    "C20": {
        "level": "For each of the eight endian wrapper types and ALL values (full 16/32/64-bit range, one symbolic value per query): round trip, in-memory bytes == to_le_bytes/to_be_bytes, equality with native ints in both directions (second symbolic value for the != case), size/align, and the bytes found in a VolatileSlice after write_obj at every offset. Solver-exhaustive over the value space, which the 2^32/2^64 enumeration a test would need cannot reach.",
        "design_ref": "DESIGN.md §4 C20",
        "note": "host endianness is the Kani target's (x86_64 little endian); big-endian hosts outside the claim",
        "technique": _T + "; differential against std to_le_bytes/to_be_bytes, values unconstrained",
    },
}
