//! C16(a) - marks issued by the slice-level accessors are precise (MODE 2 of vs_ops): marks lie inside the bytes reported
//! written; reads, loads and requests rejected before any byte moved mark nothing.
use crate::vs_ops as ops;
use vm_memory::{Be64, Le32};

const M: u8 = 2;

#[kani::proof]
#[kani::unwind(10)]
fn write() {
    ops::write::<M, false>()
}
#[kani::proof]
#[kani::unwind(10)]
fn write_slice() {
    ops::write::<M, true>()
}
#[kani::proof]
#[kani::unwind(10)]
fn read() {
    ops::read::<M, false>()
}
#[kani::proof]
#[kani::unwind(10)]
fn read_slice() {
    ops::read::<M, true>()
}
#[kani::proof]
#[kani::unwind(10)]
fn copy_to_volatile_slice() {
    ops::copy_to_volatile_slice::<M>()
}

macro_rules! obj {
    ($m:ident, $T:ty) => {
        mod $m {
            use super::*;
            #[kani::proof]
            #[kani::unwind(10)]
            fn write_obj() {
                ops::write_obj::<M, $T>(kani::any())
            }
            #[kani::proof]
            #[kani::unwind(10)]
            fn read_obj() {
                ops::read_obj::<M, $T>()
            }
            #[kani::proof]
            #[kani::unwind(10)]
            fn ref_store_load() {
                ops::ref_store_load::<M, $T>(kani::any())
            }
            #[kani::proof]
            #[kani::unwind(10)]
            fn array_store_load() {
                ops::array_store_load::<M, $T>(kani::any())
            }
        }
    };
}
obj!(o_u8, u8);
obj!(o_u16, u16);
obj!(o_u32, u32);
obj!(o_u64, u64);
obj!(o_u128, u128);
obj!(o_a3, [u8; 3]);
obj!(o_a2x16, [u16; 2]);

// endian wrappers have no kani::Arbitrary impl: build them from arbitrary native values
mod o_le32 {
    use super::*;
    #[kani::proof]
    #[kani::unwind(10)]
    fn write_obj() {
        ops::write_obj::<M, Le32>(kani::any::<u32>().into())
    }
    #[kani::proof]
    #[kani::unwind(10)]
    fn read_obj() {
        ops::read_obj::<M, Le32>()
    }
}
mod o_be64 {
    use super::*;
    #[kani::proof]
    #[kani::unwind(10)]
    fn write_obj() {
        ops::write_obj::<M, Be64>(kani::any::<u64>().into())
    }
    #[kani::proof]
    #[kani::unwind(10)]
    fn ref_store_load() {
        ops::ref_store_load::<M, Be64>(kani::any::<u64>().into())
    }
}

macro_rules! atomic {
    ($m:ident, $T:ty) => {
        mod $m {
            use super::*;
            #[kani::proof]
            #[kani::unwind(10)]
            fn store() {
                ops::store_atomic::<M, $T>(kani::any())
            }
            #[kani::proof]
            #[kani::unwind(10)]
            fn load() {
                ops::load_atomic::<M, $T>()
            }
        }
    };
}
atomic!(a_u8, u8);
atomic!(a_u16, u16);
atomic!(a_u32, u32);
atomic!(a_u64, u64);
atomic!(a_i32, i32);
atomic!(a_usize, usize);

macro_rules! copy {
    ($m:ident, $T:ty, $u:expr) => {
        mod $m {
            use super::*;
            #[kani::proof]
            #[kani::unwind($u)]
            fn copy_from() {
                ops::copy_from::<M, $T>(kani::any())
            }
            #[kani::proof]
            #[kani::unwind($u)]
            fn copy_to() {
                ops::copy_to::<M, $T>(kani::any())
            }
        }
    };
}
copy!(c_u8, u8, 10);
copy!(c_u16, u16, 10);
copy!(c_u32, u32, 10);
copy!(c_u64, u64, 10);
copy!(c_a3, [u8; 3], 10);

#[kani::proof]
#[kani::unwind(10)]
fn stream_read_upto() {
    ops::stream_read::<M, false>()
}
#[kani::proof]
#[kani::unwind(10)]
fn stream_read_exact() {
    ops::stream_read::<M, true>()
}
#[kani::proof]
#[kani::unwind(10)]
fn stream_write_upto() {
    ops::stream_write::<M>()
}

#[kani::proof]
#[kani::unwind(10)]
fn array_u16_copy_to_volatile_slice() {
    ops::array_copy_to_volatile_slice::<M, u16>()
}
#[kani::proof]
#[kani::unwind(10)]
fn array_u64_copy_to_volatile_slice() {
    ops::array_copy_to_volatile_slice::<M, u64>()
}
