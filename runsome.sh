#!/bin/bash
cd /verif
for p in "$@"; do
  s=$(date +%s)
  ./vmverif check $p --tier quick > work/runall.$p.out 2>&1
  rc=$?
  e=$(date +%s)
  echo "$p rc=$rc wall=$((e-s))s $(grep SUMMARY work/runall.$p.out | tail -1)" >> work/runall.log
done
