//! C18 - zero-length accesses are successful no-ops (slice level here; region / guest level in c18r.rs).
use crate::common::*;
use crate::recorder::Recorder;
use vm_memory::bitmap::Bitmap;
use vm_memory::{Bytes, VolatileMemory, VolatileSlice};

const N: usize = 16;

macro_rules! container {
    ($mem:ident, $before:ident, $rec:ident, $s:ident, $wc:ident) => {
        let mut $mem = Aligned::<N>::any();
        let $before = $mem.0;
        let (wo, $wc) = any_window(N);
        let $rec = Recorder::new();
        let root: usize = kani::any();
        let m: &mut [u8] = &mut $mem.0[wo..wo + $wc];
        // SAFETY: exclusive borrow for the lifetime of the slice
        let $s = unsafe { VolatileSlice::with_bitmap(m.as_mut_ptr(), m.len(), $rec.slice_at(root), None) };
    };
}

macro_rules! unchanged {
    ($mem:ident, $before:ident, $rec:ident) => {
        let i: usize = kani::any();
        kani::assume(i < N);
        assert!($mem.0[i] == $before[i]);
        assert!($rec.is_clean());
    };
}

#[kani::proof]
#[kani::unwind(4)]
fn slice_empty_buffers_and_objects() {
    container!(mem, before, rec, s, wc);
    let addr: usize = kani::any();
    let which: u8 = kani::any();
    let mut empty: [u8; 0] = [];
    match which {
        0 => { let r = s.write(&[], addr); assert!(matches!(r, Ok(0))); leak(r) }
        1 => { let r = s.read(&mut empty, addr); assert!(matches!(r, Ok(0))); leak(r) }
        2 => { let r = s.write_slice(&[], addr); assert!(r.is_ok()); leak(r) }
        3 => { let r = s.read_slice(&mut empty, addr); assert!(r.is_ok()); leak(r) }
        4 => { let r = s.write_obj([0u8; 0], addr); assert!(r.is_ok()); leak(r) }
        5 => { let r = s.read_obj::<[u8; 0]>(addr); assert!(r.is_ok()); leak(r) }
        6 => { let r = s.write_obj([0u64; 0], addr); assert!(r.is_ok()); leak(r) }
        _ => { let r = s.read_obj::<[u16; 0]>(addr); assert!(r.is_ok()); leak(r) }
    }
    kani::cover!(addr > wc);
    kani::cover!(addr == usize::MAX);
    kani::cover!(addr == 0 && wc == 0);
    kani::cover!(addr < wc);
    unchanged!(mem, before, rec);
}

#[kani::proof]
#[kani::unwind(4)]
fn slice_zero_count_streams() {
    container!(mem, before, rec, s, wc);
    let addr: usize = kani::any();
    kani::assume(addr < wc); // addresses valid for a non-empty access
    let src_buf: [u8; 3] = kani::any();
    let k: usize = kani::any();
    kani::assume(k <= 3);
    let mut src: &[u8] = &src_buf[..k];
    let mut dst_buf = [0u8; 3];
    let mut dst: &mut [u8] = &mut dst_buf[..k];
    let which: u8 = kani::any();
    match which {
        0 => { let r = s.read_volatile_from(addr, &mut src, 0); assert!(matches!(r, Ok(0))); leak(r) }
        1 => { let r = s.read_exact_volatile_from(addr, &mut src, 0); assert!(r.is_ok()); leak(r) }
        2 => { let r = s.write_volatile_to(addr, &mut dst, 0); assert!(matches!(r, Ok(0))); leak(r) }
        _ => { let r = s.write_all_volatile_to(addr, &mut dst, 0); assert!(r.is_ok()); leak(r) }
    }
    // nothing consumed from / delivered to the stream
    assert!(src.len() == k && dst.len() == k);
    kani::cover!(which == 1 && k == 0);
    kani::cover!(which == 3 && k == 3 && addr == wc - 1);
    unchanged!(mem, before, rec);
}

/// copies of zero-sized elements: `[u8; 0]` is a crate-provided ByteValued type
#[kani::proof]
#[kani::unwind(6)]
fn slice_zst_copy_to() {
    container!(mem, before, rec, s, wc);
    let mut buf = [[0u8; 0]; 3];
    let k: usize = kani::any();
    kani::assume(k <= 3);
    let _ = s.copy_to(&mut buf[..k]);
    kani::cover!(k == 3 && wc > 0);
    kani::cover!(k == 0);
    unchanged!(mem, before, rec);
}

#[kani::proof]
#[kani::unwind(6)]
fn slice_zst_copy_from() {
    container!(mem, before, rec, s, wc);
    let buf = [[0u8; 0]; 3];
    let k: usize = kani::any();
    kani::assume(k <= 3);
    s.copy_from(&buf[..k]);
    kani::cover!(k == 3 && wc > 0);
    kani::cover!(k == 0);
    unchanged!(mem, before, rec);
}

#[kani::proof]
#[kani::unwind(6)]
fn array_zst_ops() {
    container!(mem, before, rec, s, wc);
    let off: usize = kani::any();
    let n: usize = kani::any();
    let r = s.get_array_ref::<[u8; 0]>(off, n);
    let mut buf = [[0u8; 0]; 3];
    let k: usize = kani::any();
    kani::assume(k <= 3);
    let which: u8 = kani::any();
    if let Ok(a) = &r {
        match which {
            0 => {
                let c = a.copy_to(&mut buf[..k]);
                assert!(c == core::cmp::min(n, k));
            }
            1 => a.copy_from(&buf[..k]),
            2 => {
                let i: usize = kani::any();
                kani::assume(i < n);
                a.store(i, []);
                let _ = a.load(i);
            }
            _ => {
                let mut other = [0u8; 4];
                a.copy_to_volatile_slice(VolatileSlice::from(&mut other[..]));
            }
        }
    }
    kani::cover!(r.is_ok() && n > 2 && k == 3 && which == 0);
    kani::cover!(r.is_ok() && n == usize::MAX / 2);
    kani::cover!(r.is_ok() && which == 2);
    leak(r);
    unchanged!(mem, before, rec);
}

/// empty container: every access of zero length succeeds, non-empty ones are refused without panic
#[kani::proof]
#[kani::unwind(4)]
fn empty_container() {
    let mut mem: [u8; 0] = [];
    let s = VolatileSlice::from(&mut mem[..]);
    let addr: usize = kani::any();
    let r = s.write(&[], addr);
    assert!(matches!(r, Ok(0)));
    leak(r);
    let r = s.write(&[1], addr);
    assert!(r.is_err());
    leak(r);
    let r = s.get_slice(0, 0);
    assert!(r.is_ok());
    leak(r);
    let mut src: &[u8] = &[1, 2];
    let r = s.read_volatile_from(0, &mut src, 0);
    assert!(matches!(r, Ok(0)));
    leak(r);
    assert!(s.is_empty());
}
