//! C08 - a dirty mark is never lost when marking races with harvesting the bitmap (E4: interference stubs).
//!
//! The private helpers every `AtomicU64` method funnels into (`core::sync::atomic::atomic_{or,and,load,store,swap,..}`)
//! are replaced by stubs that first let the ENVIRONMENT - all other threads - perform an arbitrary, solver-chosen
//! sequence of atomic steps on that word (mark a page, harvest the word), then perform the caller's own step.  The
//! thread under test runs the REAL multi-step operation.  Every interleaving of the operation's atomic steps with
//! up to ENV_BUDGET steps of other threads is therefore one assignment of the solver's variables (rely/guarantee
//! encoding; sequentially consistent memory).
use core::num::NonZeroUsize;
use core::sync::atomic::Ordering;
use vm_memory::bitmap::AtomicBitmap;

pub const MAXW: usize = 3;
pub const ENV_BUDGET: usize = 3;

#[derive(Clone, Copy)]
pub struct WordGhost {
    pub ptr: usize,
    /// pages of this word marked by anyone (thread under test or environment) since the start
    pub marked: u64,
    /// pages returned by any fetch-and-clear (environment's or the thread under test's)
    pub harvested: u64,
}
pub static mut GH: [WordGhost; MAXW] = [WordGhost { ptr: 0, marked: 0, harvested: 0 }; MAXW];
pub static mut NW: usize = 0;
pub static mut ENV_STEPS: usize = 0;
pub static mut ENV_ON: bool = false;
/// number of pages in the bitmap (environment marks only real pages)
pub static mut PAGES: usize = 0;
/// shape violations: an atomic step of the code under test that is not in the alphabet
pub static mut BAD_SHAPE: bool = false;

unsafe fn ghost(ptr: usize) -> usize {
    let mut i = 0;
    while i < MAXW {
        if i < NW && GH[i].ptr == ptr {
            return i;
        }
        i += 1;
    }
    assert!(NW < MAXW, "ghost table full");
    GH[NW] = WordGhost { ptr, marked: 0, harvested: 0 };
    NW += 1;
    NW - 1
}

/// the other threads: up to ENV_BUDGET steps in total, each an arbitrary element of {mark page b, harvest the word}
unsafe fn interfere(p: *mut u64) {
    if !ENV_ON {
        return;
    }
    let g = ghost(p as usize);
    let mut k = 0;
    while k < 2 {
        if ENV_STEPS < ENV_BUDGET && kani::any::<bool>() {
            ENV_STEPS += 1;
            if kani::any::<bool>() {
                let b: u32 = kani::any();
                kani::assume(b < 64);
                *p |= 1u64 << b; // fetch_or(1 << b)
                GH[g].marked |= 1u64 << b;
            } else {
                GH[g].harvested |= *p; // fetch_and(0), result handed to the harvesting thread
                *p = 0;
            }
        }
        k += 1;
    }
}

unsafe fn as_u64<U: Copy>(v: U) -> u64 {
    assert!(core::mem::size_of::<U>() == 8);
    *(&v as *const U as *const u64)
}
unsafe fn from_u64<T: Copy>(v: u64) -> T {
    assert!(core::mem::size_of::<T>() == 8);
    *(&v as *const u64 as *const T)
}

pub unsafe fn or_stub<T: Copy, U: Copy>(dst: *mut T, val: U, _o: Ordering) -> T {
    let p = dst as *mut u64;
    let v = as_u64(val);
    interfere(p);
    if v.count_ones() != 1 {
        BAD_SHAPE = true;
    }
    let g = ghost(p as usize);
    GH[g].marked |= v;
    let old = *p;
    *p = old | v;
    from_u64(old)
}

pub unsafe fn and_stub<T: Copy, U: Copy>(dst: *mut T, val: U, _o: Ordering) -> T {
    let p = dst as *mut u64;
    let v = as_u64(val);
    interfere(p);
    if !(v == 0 || (!v).count_ones() == 1) {
        BAD_SHAPE = true;
    }
    let old = *p;
    *p = old & v;
    from_u64(old)
}

pub unsafe fn load_stub<T: Copy, U: Copy>(src: *const T, _o: Ordering) -> T {
    let p = src as *mut u64;
    interfere(p);
    from_u64(*p)
}

pub unsafe fn store_stub<T: Copy, U: Copy>(dst: *mut T, val: T, _o: Ordering) {
    let p = dst as *mut u64;
    interfere(p);
    *p = as_u64(val);
}

pub unsafe fn swap_stub<T: Copy>(dst: *mut T, val: T, _o: Ordering) -> T {
    let p = dst as *mut u64;
    interfere(p);
    let old = *p;
    *p = as_u64(val);
    from_u64(old)
}

fn env_on(pages: usize) {
    unsafe {
        ENV_ON = true;
        PAGES = pages;
    }
}
fn env_off() {
    unsafe { ENV_ON = false }
}

/// after the operation: let the environment use what is left of its budget on every word, then harvest for real
/// and compare with the ghost sets
fn settle_and_check(b: &AtomicBitmap, words: usize, tut_harvest: &[u64; MAXW], cleared: &[u64; MAXW]) {
    // final harvest by the harness through the real API, with the environment still interfering
    let fin = b.get_and_reset();
    env_off();
    assert!(fin.len() == words);
    assert!(!unsafe { BAD_SHAPE });
    let w: usize = kani::any();
    kani::assume(w < words);
    // ghost entry of word w: words are registered in address order of first use; find by scanning
    let (mut marked, mut harvested) = (0u64, 0u64);
    let mut seen = 0;
    unsafe {
        // the map is a Vec<AtomicU64>: word w sits at base + 8*w; the lowest registered pointer is word 0
        let mut base = usize::MAX;
        let mut i = 0;
        while i < MAXW {
            if i < NW && GH[i].ptr < base {
                base = GH[i].ptr;
            }
            i += 1;
        }
        let mut i = 0;
        while i < MAXW {
            if i < NW && GH[i].ptr == base + 8 * w {
                marked = GH[i].marked;
                harvested = GH[i].harvested;
                seen += 1;
            }
            i += 1;
        }
    }
    kani::assume(seen == 1);
    let got = harvested | tut_harvest[w] | fin[w];
    // every mark is observed: in some harvest result or still set (then it is in the final harvest), unless a reset
    // of the thread under test legitimately cleared that page
    assert!(marked & !got & !cleared[w] == 0);
    // no harvest reports a page nobody marked
    assert!(got & !marked == 0);
    kani::cover!(unsafe { ENV_STEPS } == ENV_BUDGET && marked != 0);
    kani::cover!(unsafe { ENV_STEPS } > 0 && harvested != 0);
    core::mem::forget(fin);
}

fn mk(pages: usize) -> AtomicBitmap {
    AtomicBitmap::new(pages, NonZeroUsize::new(1).unwrap())
}

macro_rules! stubs {
    ($(#[$m:meta])* fn $name:ident() $body:block) => {
        #[kani::proof]
        #[kani::stub(core::sync::atomic::atomic_or, or_stub)]
        #[kani::stub(core::sync::atomic::atomic_and, and_stub)]
        #[kani::stub(core::sync::atomic::atomic_load, load_stub)]
        #[kani::stub(core::sync::atomic::atomic_store, store_stub)]
        #[kani::stub(core::sync::atomic::atomic_swap, swap_stub)]
        $(#[$m])*
        fn $name() $body
    };
}

fn mark_body<const PAGES_: usize, const RANGE: bool>() {
    let b = mk(PAGES_);
    let words = (PAGES_ + 63) / 64;
    env_on(PAGES_);
    if RANGE {
        let (st, ln): (usize, usize) = (kani::any(), kani::any());
        kani::assume(ln <= 3);
        b.set_addr_range(st, ln);
    } else {
        b.set_bit(kani::any());
    }
    settle_and_check(&b, words, &[0; MAXW], &[0; MAXW]);
}

fn harvest_body<const PAGES_: usize>() {
    let b = mk(PAGES_);
    let words = (PAGES_ + 63) / 64;
    // some pre-existing marks made by the thread under test
    b.set_bit(kani::any());
    b.set_bit(kani::any());
    env_on(PAGES_);
    let v = b.get_and_reset();
    let mut th = [0u64; MAXW];
    let mut i = 0;
    while i < MAXW {
        if i < words {
            th[i] = v[i];
        }
        i += 1;
    }
    core::mem::forget(v);
    settle_and_check(&b, words, &th, &[0; MAXW]);
}

fn reset_body<const PAGES_: usize, const RANGE: bool>() {
    let b = mk(PAGES_);
    let words = (PAGES_ + 63) / 64;
    b.set_bit(kani::any());
    env_on(PAGES_);
    let mut cleared = [0u64; MAXW];
    if RANGE {
        let (st, ln): (usize, usize) = (kani::any(), kani::any());
        kani::assume(ln <= 3);
        b.reset_addr_range(st, ln);
        let mut q = 0;
        while q < 3 {
            if q < ln {
                if let Some(p) = st.checked_add(q) {
                    if p < PAGES_ {
                        cleared[p >> 6] |= 1u64 << (p & 63);
                    }
                }
            }
            q += 1;
        }
    } else {
        let p: usize = kani::any();
        b.reset_bit(p);
        if p < PAGES_ {
            cleared[p >> 6] |= 1u64 << (p & 63);
        }
    }
    // marks on pages outside the reset range - in particular marks made concurrently in the same word - survive
    settle_and_check(&b, words, &[0; MAXW], &cleared);
}

fn clone_body<const PAGES_: usize>() {
    let b = mk(PAGES_);
    let words = (PAGES_ + 63) / 64;
    b.set_bit(kani::any());
    env_on(PAGES_);
    let c = b.clone();
    env_off();
    // the clone shows, per word, only pages somebody marked; and is independent of later changes
    let q: usize = kani::any();
    kani::assume(q < PAGES_);
    if c.is_bit_set(q) {
        let mut any_marked = false;
        unsafe {
            let mut i = 0;
            while i < MAXW {
                if i < NW && (GH[i].marked >> (q & 63)) & 1 == 1 {
                    any_marked = true;
                }
                i += 1;
            }
        }
        assert!(any_marked);
    }
    kani::cover!(c.is_bit_set(q));
    core::mem::forget(c);
    env_on(PAGES_);
    settle_and_check(&b, words, &[0; MAXW], &[0; MAXW]);
}

macro_rules! grid {
    ($m:ident, $P:expr, $U:expr) => {
        pub mod $m {
            use super::*;
            stubs! { #[kani::unwind($U)] fn mark_range() { mark_body::<{ $P }, true>() } }
            stubs! { #[kani::unwind($U)] fn mark_bit() { mark_body::<{ $P }, false>() } }
            stubs! { #[kani::unwind($U)] fn harvest() { harvest_body::<{ $P }>() } }
            stubs! { #[kani::unwind($U)] fn reset_range() { reset_body::<{ $P }, true>() } }
            stubs! { #[kani::unwind($U)] fn reset_bit() { reset_body::<{ $P }, false>() } }
            stubs! { #[kani::unwind($U)] fn clone_then_harvest() { clone_body::<{ $P }>() } }
        }
    };
}
grid!(p8, 8, 6);
grid!(p64, 64, 6);
grid!(p65, 65, 6);
grid!(p128, 128, 6);
