#!/usr/bin/env python3
"""Development aid: apply a patch to a scratch worktree of /repo (never to /repo itself), run checks against it.
   usage: mutate.py <patch.diff> <PID> [<PID>...] [--tier quick] [--tests]"""
import subprocess, sys, os
args = sys.argv[1:]
tier = "quick"
tests = False
if "--tier" in args:
    i = args.index("--tier"); tier = args[i + 1]; del args[i:i + 2]
if "--tests" in args:
    args.remove("--tests"); tests = True
patch, pids = os.path.abspath(args[0]), args[1:]
WT = os.environ.get("VMVERIF_MUT_WT", "/tmp/vmm-mut")
if not os.path.isdir(WT):
    subprocess.check_call(["git", "-C", "/repo", "worktree", "add", "--detach", WT, "HEAD"], stdout=subprocess.DEVNULL)
subprocess.check_call(["git", "-C", WT, "checkout", "-q", "--detach", subprocess.check_output(["git", "-C", "/repo", "rev-parse", "HEAD"]).decode().strip()])
subprocess.check_call(["git", "-C", WT, "checkout", "--", "."])
subprocess.check_call(["git", "-C", WT, "apply", patch])
rcs = {}
try:
    if tests:
        subprocess.run("cd %s && cargo test --workspace --no-fail-fast --offline 2>&1 | grep -E '^test result|FAILED|failed' | head" % WT, shell=True)
    for pid in pids:
        r = subprocess.run([os.path.join(os.path.dirname(os.path.abspath(__file__)), "vmverif"), "check", pid, "--tier", tier],
                           env=dict(os.environ, VMVERIF_REPO=WT, VMVERIF_PLAYBACKS="0"))
        rcs[pid] = r.returncode
        print("== %s on %s: exit %d" % (pid, os.path.basename(patch), r.returncode), flush=True)
finally:
    subprocess.check_call(["git", "-C", WT, "checkout", "--", "."])
