//! C01 / C18 / C15 on the Xen build's own `MmapRegion` (mmap/xen.rs) for regions mapped in advance (UNIX type):
//! `get_slice` containment and extent, zero-length accesses, flag defaults of `GuestRegionMmap::from_range`.
use crate::cffi::{self, *};
use crate::common::*;
use vm_memory::mmap::{MmapRange, MmapRegion};
use vm_memory::{Bytes, GuestAddress, GuestMemoryRegion, GuestRegionMmap, MemoryRegionAddress, VolatileMemory};

#[repr(C, align(64))]
pub struct Pool(pub [u8; 64]);

#[kani::proof]
#[kani::unwind(6)]
fn unix_region_get_slice() {
    cffi::small_pages();
    cffi::link();
    let mut pool = Pool(kani::any());
    let pbase = pool.0.as_mut_ptr() as usize;
    unsafe { NEXT_BASE[0] = pbase };
    let size: usize = kani::any();
    kani::assume(size >= 1 && size <= 64);
    let r = MmapRegion::<()>::from_range(MmapRange::new_unix(size, None, GuestAddress(0x1000)));
    let reg = match r {
        Ok(r) => r,
        Err(e) => {
            leak(e);
            assert!(false);
            return;
        }
    };
    let s0 = unsafe { MAPS[0] };
    assert!(s0.live && s0.len == size && s0.fd == -1 && s0.flags == libc::MAP_ANONYMOUS | libc::MAP_PRIVATE);
    assert!(reg.as_ptr() as usize == pbase && reg.len() == size);
    let (off, cnt): (usize, usize) = (kani::any(), kani::any());
    let exact = off as u128 + cnt as u128;
    let g = reg.get_slice(off, cnt);
    match &g {
        Ok(s) => {
            assert!(exact <= size as u128);
            let (a, l) = extent(s);
            assert!(a == pbase + off && l == cnt);
            // zero-length access at any address, and a real write inside
            let w = s.write(&[], kani::any());
            assert!(matches!(w, Ok(0)));
            leak(w);
        }
        Err(e) => {
            assert!(exact > size as u128);
            assert!(ekind(e) == if exact > usize::MAX as u128 { EK::Overflow } else { EK::OutOfBounds });
        }
    }
    kani::cover!(g.is_ok() && cnt > 0 && off > 0);
    kani::cover!(g.is_ok() && exact == size as u128);
    kani::cover!(g.is_err() && exact == size as u128 + 1);
    leak(g);
    drop(reg);
    assert!(unsafe { (N_MMAP, N_MUNMAP, BAD_MUNMAP) } == (1, 1, 0) && live_count() == 0);
}

#[kani::proof]
#[kani::unwind(6)]
fn guest_region_from_range_xen() {
    cffi::small_pages();
    cffi::link();
    let mut pool = Pool(kani::any());
    let before = pool.0;
    unsafe { NEXT_BASE[0] = pool.0.as_mut_ptr() as usize };
    let base: u64 = kani::any();
    let r = GuestRegionMmap::<()>::from_range(GuestAddress(base), 16, None);
    let overflow = base as u128 + 16 > u64::MAX as u128;
    match &r {
        Ok(g) => {
            assert!(!overflow && g.start_addr().0 == base && g.len() == 16);
            let a: u64 = kani::any();
            let w = g.write(&[], MemoryRegionAddress(a));
            assert!(matches!(w, Ok(0)));
            leak(w);
        }
        Err(_) => {
            assert!(overflow);
            assert!(live_count() == 0); // released again
        }
    }
    kani::cover!(r.is_ok());
    kani::cover!(r.is_err());
    core::mem::forget(r);
    let i: usize = kani::any();
    kani::assume(i < 64);
    assert!(pool.0[i] == before[i]);
}
