//! C20 - endian wrappers keep their declared byte order for every value.
use core::mem::{align_of, size_of};
use vm_memory::{Be16, Be32, Be64, BeSize, ByteValued, Bytes, Le16, Le32, Le64, LeSize, VolatileSlice};

macro_rules! c20_for {
    ($modname:ident, $W:ident, $N:ident, $to_bytes:ident, $n:expr) => {
        mod $modname {
            use super::*;

            #[kani::proof]
            #[kani::unwind(10)]
            fn roundtrip_bytes_eq() {
                let v: $N = kani::any();
                let u: $N = kani::any();
                let w: $W = v.into();
                // round trip
                let back: $N = w.into();
                assert!(back == v);
                assert!(w.to_native() == v);
                // in-memory bytes are the value in the declared order
                let want = v.$to_bytes();
                let got = w.as_slice();
                assert!(got.len() == $n);
                let mut i = 0;
                while i < $n {
                    assert!(got[i] == want[i]);
                    i += 1;
                }
                // comparison with a native integer, both directions, equal and unequal case
                assert!((w == u) == (v == u));
                assert!((u == w) == (v == u));
                assert!(w == v);
                assert!(v == w);
                let w2: $W = u.into();
                assert!((w == w2) == (v == u));
                // layout
                assert!(size_of::<$W>() == size_of::<$N>());
                assert!(align_of::<$W>() == align_of::<$N>());
                assert!($W::default().to_native() == 0);
                kani::cover!(v == u);
                kani::cover!(v != u);
                kani::cover!(v != 0 && v.swap_bytes() != v);
            }

            #[kani::proof]
            #[kani::unwind(10)]
            fn wire_format_in_guest_memory() {
                let v: $N = kani::any();
                let mut mem = [0u8; 16];
                let off: usize = kani::any();
                kani::assume(off <= 16 - $n);
                {
                    let s = VolatileSlice::from(&mut mem[..]);
                    let w: $W = v.into();
                    assert!(s.write_obj(w, off).is_ok());
                    let r: $W = match s.read_obj(off) { Ok(r) => r, Err(_) => { assert!(false); return; } };
                    assert!(r.to_native() == v);
                }
                let want = v.$to_bytes();
                let mut i = 0;
                while i < $n {
                    assert!(mem[off + i] == want[i]);
                    i += 1;
                }
                kani::cover!(off == 0 && v != 0);
                kani::cover!(off == 16 - $n);
                kani::cover!(off % 2 == 1);
            }
        }
    };
}

c20_for!(le16, Le16, u16, to_le_bytes, 2);
c20_for!(le32, Le32, u32, to_le_bytes, 4);
c20_for!(le64, Le64, u64, to_le_bytes, 8);
c20_for!(lesize, LeSize, usize, to_le_bytes, 8);
c20_for!(be16, Be16, u16, to_be_bytes, 2);
c20_for!(be32, Be32, u32, to_be_bytes, 4);
c20_for!(be64, Be64, u64, to_be_bytes, 8);
c20_for!(besize, BeSize, usize, to_be_bytes, 8);
