#!/usr/bin/env python3
"""seedcheck.py <src_dir> <seed_id> <PID>... : confirm a seeded change independently (baseline passes with it, demo fails
with it and passes without it) in the scratch worktree, store it under /verif/seeded/<seed_id>/, then run the given checks
against it.  /repo itself is never modified."""
import json, os, shutil, subprocess, sys
src, sid, pids = sys.argv[1], sys.argv[2], sys.argv[3:]
WT = "/tmp/vmm-mut"
def sh(cmd, **kw):
    return subprocess.run(cmd, shell=True, capture_output=True, text=True, **kw)
head = sh("git -C /repo rev-parse HEAD").stdout.strip()
if not os.path.isdir(WT):
    sh("git -C /repo worktree add --detach %s HEAD" % WT)
sh("git -C %s checkout -q --detach %s && git -C %s checkout -- . && git -C %s clean -fdq -e target" % (WT, head, WT, WT))
patch = os.path.join(src, "patch.diff")
demo = os.path.join(src, "demo.rs")
r = sh("git -C %s apply %s" % (WT, patch))
assert r.returncode == 0, "patch does not apply: " + r.stderr
res = {}
t = sh("cd %s && cargo test --workspace --no-fail-fast --offline 2>&1 | grep -E '^test result'" % WT)
res["baseline_with_change"] = t.stdout.strip().splitlines()
t2 = sh("cd %s && cargo test --offline --features backend-mmap,backend-atomic,backend-bitmap 2>&1 | grep -E '^test result'" % WT)
res["feature_tests_with_change"] = t2.stdout.strip().splitlines()
os.makedirs(os.path.join(WT, "tests"), exist_ok=True)
shutil.copy(demo, os.path.join(WT, "tests", "demo_seed.rs"))
prof = "--release" if "release" in open(os.path.join(src, "meta.json")).read() else ""
if os.environ.get("SEED_PROFILE") == "debug":
    prof = ""
d1 = sh("cd %s && cargo test --offline %s --features backend-mmap,backend-bitmap --test demo_seed -- --test-threads 1 2>&1 | grep -E '^test result|^error:' | head -4" % (WT, prof))
res["demo_with_change"] = d1.stdout.strip().splitlines()
sh("git -C %s apply -R %s" % (WT, patch))
d2 = sh("cd %s && cargo test --offline %s --features backend-mmap,backend-bitmap --test demo_seed -- --test-threads 1 2>&1 | grep -E '^test result|^error:' | head -4" % (WT, prof))
res["demo_without_change"] = d2.stdout.strip().splitlines()
os.remove(os.path.join(WT, "tests", "demo_seed.rs"))
sh("git -C %s checkout -- . && git -C %s clean -fdq -e target" % (WT, WT))
tr = lambda k: [l for l in res[k] if l.startswith("test result")]
ok = (any("ok. 81 passed" in l for l in res["baseline_with_change"]) and (any("FAILED" in l for l in tr("demo_with_change")) or any("error: test failed" in l for l in res["demo_with_change"]))
      and tr("demo_without_change") and all("test result: ok." in l for l in tr("demo_without_change")))
res["confirmed"] = ok
print(json.dumps(res, indent=1))
dst = os.path.join("/verif/seeded", sid)
os.makedirs(dst, exist_ok=True)
shutil.copy(patch, dst); shutil.copy(demo, dst)
meta = json.load(open(os.path.join(src, "meta.json")))
meta["confirmation"] = res
checks = {}
if ok:
    for pid in pids:
        r = subprocess.run(["./mutate.py", os.path.join(dst, "patch.diff"), pid], capture_output=True, text=True, cwd="/verif")
        lines = [l for l in r.stdout.splitlines() if l.startswith(("== ", "SUMMARY", "VIOLATION", "INCONCLUSIVE"))]
        print("\n".join(lines[-6:]))
        rc = [l for l in lines if l.startswith("== ")]
        checks[pid] = {"exit": int(rc[-1].rsplit(" ", 1)[1]) if rc else None,
                       "violations": sorted(set(l.split("replay=")[1].rsplit("/", 1)[1].replace(".replay.txt", "") for l in lines if l.startswith("VIOLATION")))[:12],
                       "summary": [l for l in lines if l.startswith("SUMMARY")][-1:] }
meta["checks_run"] = checks
json.dump(meta, open(os.path.join(dst, "meta.json"), "w"), indent=1)
