//! Kani proof harnesses over rust-vmm/vm-memory built with feature "xen" (mmap/xen.rs replaces mmap/unix.rs).
#![allow(dead_code, unused_imports, unused_variables, unused_mut, clippy::all)]
#![cfg_attr(kani, feature(allocator_api))]

#[cfg(kani)]
#[kani::proof]
fn __setup_noop() {}
