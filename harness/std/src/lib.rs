//! Kani proof harnesses over rust-vmm/vm-memory (standard Unix build: backend-mmap + backend-bitmap).
//! The crate depends on /repo by path; nothing here is a model of vm-memory's code.
#![allow(dead_code, unused_imports, unused_variables, unused_mut, clippy::all)]
#![cfg_attr(kani, feature(allocator_api))]
extern crate alloc;

#[cfg(kani)]
#[kani::proof]
fn __setup_noop() {}

#[cfg(kani)]
mod common;
#[cfg(kani)]
mod recorder;
#[cfg(kani)]
mod vs_ops;
#[cfg(kani)]
mod cffi;
#[cfg(kani)]
mod regn;
#[cfg(kani)]
mod mock;
#[cfg(kani)]
mod c02;
#[cfg(kani)]
mod stdstubs;
#[cfg(kani)]
mod c10;
#[cfg(kani)]
mod c12;
#[cfg(kani)]
mod c13;
#[cfg(kani)]
mod c14;
#[cfg(kani)]
mod c15;
#[cfg(kani)]
mod c03;
#[cfg(kani)]
mod c01;
#[cfg(kani)]
mod c04;
#[cfg(kani)]
mod c05;
#[cfg(kani)]
mod c05e;
#[cfg(kani)]
mod trace;
#[cfg(kani)]
mod c06;
#[cfg(kani)]
mod c08;
#[cfg(kani)]
mod c09;
#[cfg(kani)]
mod c16;
#[cfg(kani)]
mod c17;
#[cfg(kani)]
mod c18;
#[cfg(kani)]
mod c18r;
#[cfg(kani)]
mod c19;
#[cfg(kani)]
mod c20;
