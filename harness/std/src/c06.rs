//! C06 - aligned 1/2/4/8-byte guest accesses are single accesses of that width.
//!
//! What the solver decides: the *sequence of primitive accesses the code issues* (E3 trace stubs), for every
//! length 0..=8 and every (guest address mod 8, local address mod 8).  That one naturally aligned access of
//! <= 8 bytes is one instruction and atomic on the hardware is outside the claim.
use crate::common::*;
use crate::trace::*;
use core::mem::size_of;
use core::sync::atomic::Ordering;
use vm_memory::{Bytes, ReadVolatile, VolatileMemory, VolatileSlice, WriteVolatile};

const N: usize = 16;

/// the oracle for one transfer between guest [ga, ga+len) and local [la, la+len)
fn oracle(guest_is_dst: bool, gbase: usize, ga: usize, lbase: usize, la: usize, len: usize) {
    let (gk, lk) = if guest_is_dst { (1u8, 0u8) } else { (0u8, 1u8) };
    // guest-side accesses tile the range once, ascending, naturally aligned
    let g = check_tiling(gk, gbase, gbase + N, ga, len);
    let l = check_tiling(lk, lbase, lbase + N, la, len);
    assert!(g == l);
    // the single-access guarantee
    if (len == 1 || len == 2 || len == 4 || len == 8) && ga % len == 0 && la % len == 0 {
        assert!(g == 1);
    }
    kani::cover!(len == 8 && g == 1);
    kani::cover!(len == 8 && g == 8);
    kani::cover!(len == 4 && g == 1);
    kani::cover!(len == 2 && g == 1);
    kani::cover!(len == 6 && g == 2);
    kani::cover!(len == 0 && g == 0);
}

macro_rules! setup {
    ($mem:ident, $loc:ident, $go:ident, $lo:ident, $len:ident) => {
        let mut $mem = Aligned::<N>::any();
        let mut $loc = Aligned::<N>::any();
        let $go: usize = kani::any();
        let $lo: usize = kani::any();
        let $len: usize = kani::any();
        kani::assume($len <= 8 && $go <= N - $len && $lo <= N - $len);
    };
}

#[kani::proof]
#[kani::unwind(10)]
#[kani::stub(core::ptr::read_volatile, rv_stub)]
#[kani::stub(core::ptr::write_volatile, wv_stub)]
fn slice_write() {
    setup!(mem, loc, go, lo, len);
    let (gb, lb) = (mem.base(), loc.base());
    let which: u8 = kani::any();
    {
        let s = VolatileSlice::from(&mut mem.0[..]);
        let buf = &loc.0[lo..lo + len];
        match which {
            0 => leak(s.write(buf, go)),
            1 => leak(s.write_slice(buf, go)),
            2 => s.subslice(go, N - go).unwrap().copy_from(buf),
            _ => {
                let mut src = buf;
                leak(s.read_volatile_from(go, &mut src, len))
            }
        }
    }
    oracle(true, gb, gb + go, lb, lb + lo, len);
}

#[kani::proof]
#[kani::unwind(10)]
#[kani::stub(core::ptr::read_volatile, rv_stub)]
#[kani::stub(core::ptr::write_volatile, wv_stub)]
fn slice_read() {
    setup!(mem, loc, go, lo, len);
    let (gb, lb) = (mem.base(), loc.base());
    let which: u8 = kani::any();
    {
        let s = VolatileSlice::from(&mut mem.0[..]);
        let buf = &mut loc.0[lo..lo + len];
        match which {
            0 => leak(s.read(buf, go)),
            1 => leak(s.read_slice(buf, go)),
            2 => {
                s.subslice(go, N - go).unwrap().copy_to(buf);
            }
            _ => {
                let mut dst = buf;
                leak(s.write_volatile_to(go, &mut dst, len))
            }
        }
    }
    oracle(false, gb, gb + go, lb, lb + lo, len);
}

macro_rules! obj {
    ($name:ident, $T:ty) => {
        #[kani::proof]
        #[kani::unwind(10)]
        #[kani::stub(core::ptr::read_volatile, rv_stub)]
        #[kani::stub(core::ptr::write_volatile, wv_stub)]
        fn $name() {
            let mut mem = Aligned::<N>::any();
            let gb = mem.base();
            let go: usize = kani::any();
            const SZ: usize = size_of::<$T>();
            kani::assume(go <= N - SZ);
            let do_write: bool = kani::any();
            let val: $T = kani::any();
            {
                let s = VolatileSlice::from(&mut mem.0[..]);
                if do_write {
                    leak(s.write_obj(val, go));
                } else {
                    let r: Result<$T, _> = s.read_obj(go);
                    leak(r);
                }
            }
            // whole-object accesses: the local value is naturally aligned, so an aligned guest address
            // must be accessed exactly once with the full width
            let gk = if do_write { 1u8 } else { 0u8 };
            let g = check_tiling(gk, gb, gb + N, gb + go, SZ);
            if go % SZ == 0 {
                assert!(g == 1);
            }
            kani::cover!(do_write && g == 1);
            kani::cover!(!do_write && g == 1);
            kani::cover!(SZ == 1 || g > 1);
        }
    };
}
obj!(obj_u8, u8);
obj!(obj_u16, u16);
obj!(obj_u32, u32);
obj!(obj_u64, u64);
obj!(obj_i64, i64);

macro_rules! atomic {
    ($name:ident, $T:ty) => {
        #[kani::proof]
        #[kani::unwind(10)]
        #[kani::stub(core::sync::atomic::atomic_load, aload_stub)]
        #[kani::stub(core::sync::atomic::atomic_store, astore_stub)]
        fn $name() {
            let mut mem = Aligned::<N>::any();
            let gb = mem.base();
            // the container itself starts at any address modulo 8: what must be aligned is the ADDRESS, not the offset
            let wo: usize = kani::any();
            kani::assume(wo <= N);
            let go: usize = kani::any();
            const SZ: usize = size_of::<$T>();
            let do_store: bool = kani::any();
            let val: $T = kani::any();
            let fits = go as u128 + SZ as u128 <= (N - wo) as u128;
            let ok;
            {
                let s = VolatileSlice::from(&mut mem.0[wo..]);
                if do_store {
                    let r = s.store(val, go, Ordering::SeqCst);
                    ok = r.is_ok();
                    leak(r);
                } else {
                    let r: Result<$T, _> = s.load(go, Ordering::Acquire);
                    ok = r.is_ok();
                    leak(r);
                }
            }
            // refuses misaligned / out-of-range addresses, otherwise exactly one atomic access of the full width
            assert!(ok == (fits && (gb + wo + go) % SZ == 0));
            if ok {
                assert!(count() == 1);
                let k = if do_store { 3 } else { 2 };
                assert!(count_kind(k) == 1);
                let a = at_kind(k, 0);
                assert!(a.addr == gb + wo + go && a.width == SZ);
            } else {
                assert!(count() == 0);
            }
            kani::cover!(ok && do_store);
            kani::cover!(ok && !do_store && go > 0 && (SZ == 1 || wo % SZ != 0));
            kani::cover!(SZ == 1 || (!ok && fits && go % SZ == 0));
        }
    };
}
atomic!(atomic_u8, u8);
atomic!(atomic_u16, u16);
atomic!(atomic_u32, u32);
atomic!(atomic_u64, u64);
atomic!(atomic_usize, usize);

/// region level: the real GuestRegionMmap (raw-pointer region) funnels into the same copy helper
#[kani::proof]
#[kani::unwind(10)]
#[kani::stub(core::ptr::read_volatile, rv_stub)]
#[kani::stub(core::ptr::write_volatile, wv_stub)]
fn region_write_read() {
    use crate::cffi::PagePool;
    use vm_memory::MemoryRegionAddress;
    let mut pool = PagePool(kani::any());
    let gb = pool.0.as_ptr() as usize;
    let g = crate::regn::mk_region(&mut pool, 16, 0x1000);
    let mut loc = Aligned::<N>::any();
    let lb = loc.base();
    let go: usize = kani::any();
    let lo: usize = kani::any();
    let len: usize = kani::any();
    kani::assume(len <= 8 && go <= N - len && lo <= N - len);
    let do_write: bool = kani::any();
    if do_write {
        leak(g.write(&loc.0[lo..lo + len], MemoryRegionAddress(go as u64)));
    } else {
        leak(g.read(&mut loc.0[lo..lo + len], MemoryRegionAddress(go as u64)));
    }
    core::mem::forget(g);
    // the pool is 64 bytes; the region is its first 16
    let (gk, lk) = if do_write { (1u8, 0u8) } else { (0u8, 1u8) };
    let gcnt = check_tiling(gk, gb, gb + 64, gb + go, len);
    let lcnt = check_tiling(lk, lb, lb + N, lb + lo, len);
    assert!(gcnt == lcnt);
    if (len == 1 || len == 2 || len == 4 || len == 8) && (gb + go) % len == 0 && (lb + lo) % len == 0 {
        assert!(gcnt == 1);
    }
    kani::cover!(len == 8 && gcnt == 1 && do_write);
    kani::cover!(len == 4 && gcnt == 1 && !do_write);
    kani::cover!(len == 8 && gcnt > 1);
}

/// typed references and element arrays: one volatile access of the element's width at the element's address
#[kani::proof]
#[kani::unwind(10)]
#[kani::stub(core::ptr::read_volatile, rv_stub)]
#[kani::stub(core::ptr::write_volatile, wv_stub)]
fn typed_ref_and_array() {
    let mut mem = Aligned::<N>::any();
    let gb = mem.base();
    let off: usize = kani::any();
    let i: usize = kani::any();
    let n: usize = kani::any();
    let do_store: bool = kani::any();
    let via_array: bool = kani::any();
    let mut addr = 0usize;
    let mut done = false;
    {
        let s = VolatileSlice::from(&mut mem.0[..]);
        if via_array {
            let r = s.get_array_ref::<u32>(off, n);
            if let Ok(a) = &r {
                kani::assume(i < n);
                if do_store {
                    a.store(i, kani::any())
                } else {
                    let _ = a.load(i);
                }
                addr = gb + off + 4 * i;
                done = true;
            }
            leak(r);
        } else {
            let r = s.get_ref::<u32>(off);
            if let Ok(v) = &r {
                if do_store {
                    v.store(kani::any())
                } else {
                    let _ = v.load();
                }
                addr = gb + off;
                done = true;
            }
            leak(r);
        }
    }
    if done {
        let k = if do_store { 1u8 } else { 0u8 };
        assert!(count() == 1 && count_kind(k) == 1);
        let a = at_kind(k, 0);
        assert!(a.addr == addr && a.width == 4);
    } else {
        assert!(count() == 0);
    }
    kani::cover!(done && via_array && i > 0 && do_store);
    kani::cover!(done && !via_array && !do_store);
    kani::cover!(!done);
}

// (guest-memory level through a real GuestMemoryMmap + trace stubs ran CBMC out of memory (20 GB); the guest level funnels into
// GuestRegionMmap::write/read via the blanket impl and try_access, whose chunking is decided in C03 and C07.)
