//! C05(c)/C16(c) - end-to-end cross-check with the REAL `AtomicBitmap` under a volatile slice: after a write of n
//! bytes through the slice (whose bitmap is the real bitmap sliced at a symbolic root offset), a byte address is
//! reported dirty IF AND ONLY IF its page overlaps the n bytes written.  Page size is a grid point, everything
//! else symbolic.
use crate::common::*;
use core::num::NonZeroUsize;
use vm_memory::bitmap::{AtomicBitmap, Bitmap};
use vm_memory::{Bytes, VolatileMemory, VolatileSlice};

const N: usize = 16;
const S: usize = 64;

fn body<const P: usize, const OP: u8>() {
    let bm = AtomicBitmap::new(S, NonZeroUsize::new(P).unwrap());
    let root: usize = kani::any();
    kani::assume(root <= S - N);
    let mut mem: [u8; N] = kani::any();
    let buf: [u8; 12] = kani::any();
    let l: usize = kani::any();
    kani::assume(l <= 12);
    let addr: usize = kani::any();
    let mut n = 0usize;
    let mut at = 0usize;
    {
        // SAFETY: exclusive borrow of mem for the lifetime of the slice
        let s = unsafe { VolatileSlice::with_bitmap(mem.as_mut_ptr(), N, bm.slice_at(root), None) };
        match OP {
            0 => {
                let r = s.write(&buf[..l], addr);
                if let Ok(k) = &r {
                    n = *k;
                    if n > 0 {
                        at = addr;
                    }
                }
                leak(r);
            }
            1 => {
                // derivation chain: offset -> subslice -> write_obj
                let (o1, o2, c2): (usize, usize, usize) = (kani::any(), kani::any(), kani::any());
                let r1 = s.offset(o1);
                if let Ok(s1) = &r1 {
                    let r2 = s1.subslice(o2, c2);
                    if let Ok(s2) = &r2 {
                        let r = s2.write_obj(0x1122_3344u32, addr);
                        if r.is_ok() {
                            n = 4;
                            at = o1 + o2 + addr;
                        } else if let Err(vm_memory::VolatileMemoryError::PartialBuffer { completed, .. }) = &r {
                            n = *completed;
                            at = o1 + o2 + addr;
                        }
                        leak(r);
                    }
                    leak(r2);
                }
                leak(r1);
            }
            _ => {
                // element array -> ref_at -> store
                let (off, cnt, i): (usize, usize, usize) = (kani::any(), kani::any(), kani::any());
                let r = s.get_array_ref::<u16>(off, cnt);
                if let Ok(a) = &r {
                    kani::assume(i < cnt);
                    a.store(i, 0xBEEF);
                    n = 2;
                    at = off + 2 * i;
                }
                leak(r);
            }
        }
    }
    let x: usize = kani::any();
    kani::assume(x < S);
    let lo = root + at;
    let expected = n > 0 && x / P >= lo / P && x / P <= (lo + n - 1) / P;
    assert!(bm.dirty_at(x) == expected);
    kani::cover!(n > 1 && lo / P != (lo + n - 1) / P); // page-straddling write
    kani::cover!(n > 0 && (lo + n) % P == 0); // ends exactly at a page end
    kani::cover!(n == 0);
    core::mem::forget(bm);
}

macro_rules! e2e {
    ($name:ident, $P:expr, $OP:expr) => {
        #[kani::proof]
        #[kani::unwind(14)]
        fn $name() {
            body::<{ $P }, { $OP }>()
        }
    };
}
e2e!(write_p4, 4, 0);
e2e!(write_p16, 16, 0);
e2e!(chain_obj_p4, 4, 1);
e2e!(array_store_p8, 8, 2);
e2e!(write_p1, 1, 0);
e2e!(write_p5, 5, 0);

/// descriptor reads (C05: a failing read marks at least everything it could have touched; C16: that whole-target
/// mark is the single documented exception, a successful read marks exactly the bytes delivered)
#[kani::proof]
#[kani::unwind(18)]
fn fd_read_marks() {
    use crate::cffi;
    use crate::recorder::Recorder;
    use std::fs::File;
    use std::os::fd::FromRawFd;
    use vm_memory::ReadVolatile;
    cffi::link();
    cffi::link_io();
    let mut mem: [u8; N] = kani::any();
    let rec = Recorder::new();
    let root: usize = kani::any();
    kani::assume(root <= usize::MAX / 2);
    let (o, b): (usize, usize) = (kani::any(), kani::any());
    kani::assume(o <= N && b <= N - o);
    let ret: isize = kani::any();
    kani::assume(ret >= -1);
    unsafe {
        cffi::IO_RET[0] = ret;
        cffi::IO_ERRNO[0] = libc::EIO;
    }
    // SAFETY: descriptor only reaches the models
    let mut f = unsafe { File::from_raw_fd(5) };
    let m: &mut [u8] = &mut mem[o..o + b];
    let mut s = unsafe { VolatileSlice::with_bitmap(m.as_mut_ptr(), m.len(), rec.slice_at(root), None) };
    let r = f.read_volatile(&mut s);
    core::mem::forget(f);
    let moved = if ret < 0 { 0 } else if ret as usize > b { b } else { ret as usize };
    if r.is_err() {
        // conservative: the whole target, and nothing outside it
        let j: usize = kani::any();
        kani::assume(j < b);
        assert!(rec.covers(root + j));
        assert!(b == 0 || rec.all_within(root, b));
    } else if moved == 0 {
        assert!(rec.is_clean());
    } else {
        let j: usize = kani::any();
        kani::assume(j < moved);
        assert!(rec.covers(root + j));
        assert!(rec.all_within(root, moved));
    }
    kani::cover!(r.is_err() && b > 0);
    kani::cover!(r.is_ok() && moved > 0 && moved < b);
    leak(r);
}
