"""Table of checks: property -> groups of Kani harnesses (see DESIGN.md §2/§4).

A group is one `cargo kani` invocation: harness filters (prefix match on the harness path) for the
quick tier, extra filters for the thorough tier, parallelism, per-process memory cap (ulimit -v),
per-harness timeout.  `stubbed` = the harness relies on Kani stubs / c-ffi models, so a
counterexample cannot be replayed natively (DESIGN §1.5b).
"""

CRATES = ["std", "xen"]

COMMON_ASSUMPTIONS = [
    "Kani 0.68 / CBMC 6.11 / CaDiCaL are sound for the goto program they are given; Kani's model of the Rust std it compiles (nightly-2026-08-21) is faithful",
    "bounded claim: holds for all values of the symbolic inputs within the stated bounds, nothing is claimed outside them",
    "sequentially consistent, single-threaded execution model (CBMC); compiler code generation and hardware atomicity are outside the claim",
]

PROPS = {}

PROPS["C19"] = {
    "groups": [
        {"crate": "std", "quick": ["c19::"], "jobs": 8, "mem_gb": 6, "timeout_s": 300},
    ],
    "bounds": "none on the inputs: both operands unconstrained u64, alignment 1<<k for every k in 0..=63; "
              "instantiations GuestAddress and MemoryRegionAddress",
    "outside": "alignments that are not powers of two (documented panic)",
    "assumptions": ["oracle is 128-bit exact arithmetic written in the harness"],
}

PROPS["C20"] = {
    "groups": [
        {"crate": "std", "quick": ["c20::"], "jobs": 8, "mem_gb": 6, "timeout_s": 300},
    ],
    "bounds": "none on the values: full 16/32/64-bit range for all eight wrapper types; host = Kani target x86_64 (little endian)",
    "outside": "big-endian hosts",
    "assumptions": ["oracle is std's to_le_bytes/to_be_bytes"],
}

PROPS["C01"] = {
    "groups": [
        {"crate": "std", "quick": ["c01::"], "jobs": 16, "mem_gb": 6, "timeout_s": 600},
    ],
    "bounds": "parent = every window (offset, length) of a 32-byte 8-aligned buffer (all base alignments mod 8, lengths 0..=32); "
              "request arguments (offset, count, n, index, mid) unconstrained usize; element types u8,u16,u32,u64,u128,[u8;3],[u16;2],Le32; "
              "atomic types AtomicU8/16/32/64; one derivation step per query (inductive step for chains of any depth)",
    "outside": "parents larger than 32 bytes (same code, same full-width operands, smaller allocation)",
    "assumptions": ["ref_at index assumed < len (documented program-logic panic)"],
}
