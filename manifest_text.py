"""Prose for MANIFEST.json (kept next to spec.py; gen_manifest.py joins them)."""

HOOKS = {
    "guard": "none",
    "enable": "no source hooks: harness crates under /verif/harness depend on /repo by path and instrument it from outside with Kani stubs of std functions (core::ptr::{read,write}_volatile, core::sync::atomic::atomic_*) and -Z c-ffi libc models; /repo is compiled unmodified",
    "baseline_off_cmd": "cd /repo && cargo test --workspace --no-fail-fast --offline",
    "source_commits": [],
    "add_only": True,
}

NOTES = ("All checks are bounded symbolic execution of the real crate (Kani/CBMC). Exit 0 = all queries UNSAT for the "
         "negated assertions within the stated bounds, 1 = VIOLATION line(s), 2 = inconclusive (engine error, timeout, OOM, "
         "unwinding bound too small, vacuity witness unreachable, counterexample not reproducing natively). "
         "Bounds, stubs and models per property are in DESIGN.md §4 and in each evidence file.")

NOT_APPLICABLE = {
    "C11": "arc-swap (GuestMemoryAtomic) cannot be compiled by kani-compiler 0.68 (internal compiler error in intrinsics.rs:243 on ArcSwap::new/load/store) and the property quantifies over thread interleavings of a multi-word hazard-pointer protocol in a third-party crate that Kani (no concurrency) cannot execute; a hand-written SMT model would verify the model, not the code (DESIGN.md §5)",
}

_T = "Kani proof harness -> CBMC bounded model checking (SAT, CaDiCaL) over the compiled crate"

TEXT = {
    "C19": {
        "level": "Every checked_/overflowing_/unchecked_ add, sub, offset_from, align_up, mask, bit-op and ordering method of GuestAddress and MemoryRegionAddress is compared with 128-bit exact arithmetic for ALL 64-bit operands and all 64 power-of-two alignments in one solver query each; no bound on inputs, so within the SAT encoding this is exhaustive over 2^128 operand pairs - the right level because the failures live at a handful of values near 0, 2^63, 2^64.",
        "design_ref": "DESIGN.md §4 C19",
        "note": "trusts Kani's translation of Rust integer ops to CBMC bit-vectors; oracle = u128 arithmetic in the harness; non-power-of-two alignments (documented panic) excluded",
        "technique": _T + "; differential against 128-bit exact arithmetic, inputs unconstrained",
    },
    "C20": {
        "level": "For each of the eight endian wrapper types and ALL values (full 16/32/64-bit range, one symbolic value per query): round trip, in-memory bytes == to_le_bytes/to_be_bytes, equality with native ints in both directions (second symbolic value for the != case), size/align, and the bytes found in a VolatileSlice after write_obj at every offset. Solver-exhaustive over the value space, which the 2^32/2^64 enumeration a test would need cannot reach.",
        "design_ref": "DESIGN.md §4 C20",
        "note": "host endianness is the Kani target's (x86_64 little endian); big-endian hosts outside the claim",
        "technique": _T + "; differential against std to_le_bytes/to_be_bytes, values unconstrained",
    },
}

TEXT.update({
    "C01": {
        "level": "One inductive step per derivation operation (subslice/get_slice, offset, split_at, get_ref, get_array_ref, ref_at, aligned_as_ref/mut, get_atomic_ref, as_volatile_slice, array<->slice conversions, ByteValued::from_slice/from_mut_slice) from an ARBITRARY valid parent (every window of a 32-byte buffer) with all request arguments unconstrained usize: Ok iff the exact arithmetic condition, child extent == request and inside the parent, error variant as documented; Kani's own pointer checks flag any ptr.add/deref outside the parent at the line in /repo that does it. Chains of any depth follow by induction.",
        "design_ref": "DESIGN.md §4 C01",
        "note": "parents <= 32 bytes; element types u8..u128,[u8;3],[u16;2],Le32; atomic 1/2/4/8; ref_at index assumed in range (documented panic)",
        "technique": _T + "; symbolic parent window + unconstrained 64-bit request arguments, iff-oracle in exact arithmetic",
    },
    "C04": {
        "level": "Every accessor kind of a volatile slice (buffer read/write, slice forms, write_obj/read_obj, typed refs, element arrays, copy_to/copy_from, slice-to-slice copy, atomic store/load) executed once from an arbitrary memory state on an arbitrary window of a 16-byte buffer with unconstrained offsets: returned count/err variant equal the byte-array model, and a symbolic byte index compares every byte of the container (frame included) with the model.",
        "design_ref": "DESIGN.md §4 C04",
        "note": "container <= 16 bytes, transfers <= 12 bytes (both sides of the 8-byte threshold), element arrays <= 4 elements",
        "technique": _T + "; differential against a flat byte-array model, symbolic index stands for all bytes",
    },
    "C05": {
        "level": "Soundness of dirty marks at slice level: the container carries a recording bitmap behind the crate's real BaseSlice at a symbolic root offset; for every write-type accessor of C04 every byte that differs from the pre-state and every byte reported written must be covered by a mark that reached the root. Page arithmetic of the real AtomicBitmap (which pages a byte range dirties) is decided by the C09 harnesses.",
        "design_ref": "DESIGN.md §4 C05/C16",
        "note": "Recorder bitmap is harness code (logs mark_dirty); region- and guest-level composition see level_note of C03",
        "technique": _T + "; recording Bitmap behind the real BaseSlice, diff-driven oracle",
    },
    "C06": {
        "level": "The sequence of primitive accesses the code issues is made observable by Kani stubs of core::ptr::read_volatile/write_volatile and atomic_load/atomic_store inside the unmodified crate; for every length 0..=8 and every (guest address mod 8, local address mod 8): accesses tile the range once, ascending, naturally aligned, and an aligned 1/2/4/8-byte transfer is exactly ONE access of that width; store/load issue exactly one atomic access and refuse misaligned addresses.",
        "design_ref": "DESIGN.md §4 C06",
        "note": "decides the access sequence issued by the code, not code generation or hardware atomicity (the 'schedules' half follows from one aligned access <= 8 bytes being single-copy atomic - outside the claim)",
        "technique": _T + "; access-trace stubs of std volatile/atomic primitives",
    },
    "C09": {
        "level": "AtomicBitmap vs a set-of-pages model on a grid of concrete (page size, byte size) incl. 0/1/2/10/64/65/129 pages and page sizes 1,3,7,4096: from a pre-state with three symbolic pages set, one operation (set/reset range, set/reset bit, get_and_reset, reset, clone, enlarge, mark/dirty_at through slices of depth 1-2) with unconstrained 64-bit arguments, then read-out at a symbolic page index and byte address.",
        "design_ref": "DESIGN.md §4 C09",
        "note": "container shapes (page size, size) are grid points; quick tier restricts ranges on the 64+-page bitmaps to <= 3 pages (start anywhere), thorough lifts that",
        "technique": _T + "; differential against a set model, symbolic read-out index",
    },
    "C16": {
        "level": "Precision of dirty marks at slice level (same recording bitmap as C05): every mark lies inside the n bytes reported written at the accessor's offset; reads, loads, derivations and requests rejected before any byte moved record nothing. Page granularity (exactly the overlapping pages, len-1 arithmetic) is decided by the C09 set_range harnesses on the real AtomicBitmap.",
        "design_ref": "DESIGN.md §4 C05/C16",
        "note": "all-or-error forms failing with PartialBuffer have written - and may mark - exactly the completed prefix",
        "technique": _T + "; recording Bitmap behind the real BaseSlice",
    },
    "C17": {
        "level": "(a) standard build: ptr_guard()/ptr_guard_mut() of slices, typed refs and element arrays report len() == bytes covered and as_ptr() == first byte for every element type, offset and element count. (b) Xen build: the real MmapRegion::from_range(GRANT|NO_ADVANCE_MAP) with models of sysconf (64-byte page), the gntdev ioctls (Kani stub of vmm_sys_util::ioctl::ioctl_with_ref) and mmap/munmap: for every access offset and length (one- and two-page windows) exactly one window is mapped, it requests the right frames and covers every byte touched, data lands at the in-page offset, and map/unmap requests and mmap/munmap pair up so that nothing stays mapped.",
        "design_ref": "DESIGN.md §4 C17, §A.3, §A.4",
        "note": "(b) decides the window arithmetic under the assumption that ptr.add on the NULL-based pseudo-pointers is integer addition (Kani's offset model is stubbed; the UB-class finding has its own harness); quick tier: buffer write + atomic store + UB harness, thorough adds the u64 object / typed-ref store; three known findings are reported by this check",
        "technique": _T + "; symbolic parent, offset, element count",
    },
    "C18": {
        "level": "Zero-length accesses at slice level: empty buffers and zero-sized objects at ANY usize address return Ok(0)/Ok(()), zero-count stream transfers and copies of zero-sized elements succeed, nothing panics, no byte changes, nothing is marked (recording bitmap).",
        "design_ref": "DESIGN.md §4 C18",
        "note": "region and guest-memory level are separate harness groups",
        "technique": _T + "; unconstrained addresses, recording bitmap, Kani panic checks",
    },
})

TEXT.update({
    "C02": {
        "level": "Every address-space query (find_region, to_region_addr, address_in_range, check_address, last_addr, num_regions, get_host_address, checked_offset, check_range, get_slice) on layouts of 1-2 (thorough 3) regions whose guest bases AND sizes are symbolic 64-bit values, with unconstrained query arguments, compared with an interval-set model; run on the real GuestMemoryMmap (binary search) and on a contract-level mock that uses only the provided default methods.",
        "design_ref": "DESIGN.md §4 C02",
        "note": "<= 3 regions; one lookup per solver query; host-pointer and get_slice queries bound region sizes by the backing pool; empty ranges at unmapped bases only checked for absence of panic",
        "technique": _T + "; symbolic layouts (E6), differential against an interval-set model",
    },
    "C03": {
        "level": "Assume/guarantee split: (L1) the crate's real try_access and blanket Bytes<GuestAddress> run over a contract-level mock GuestMemory with symbolic layouts (1-3 regions, 64-bit bases, sizes <= 4, buffers <= 6, any start address) against a flat sparse byte-array model - count, error variant, every byte of every region (symbolic index), dirty marks per owning region; (L2) the real GuestRegionMmap is shown to implement the region contract the mock stands for; (L3) the real find_region equals the interval lookup (C02).",
        "design_ref": "DESIGN.md §3 E7, §4 C03",
        "note": "the composition L1&L2&L3 is an argument, not a solver query; mock regions' buffer forms are a byte loop written in the harness crate; file-backed/Xen backing is the kernel's",
        "technique": _T + "; assume/guarantee split with a contract-level mock, differential against a flat byte-array model",
    },
    "C10": {
        "level": "One inductive step from an arbitrary valid map (1-3 regions, symbolic 64-bit bases and sizes): from_regions/from_arc_regions error variant iff model condition; insert_region Ok iff no byte overlaps (one-byte overlap, duplicate start, exact adjacency all reachable), new map = old + region with pointer identity of the inserted handle; remove_region Ok iff exact (start,size) match, returns the very same region object; old map's answers unchanged; region creation refused iff base+size overflows.",
        "design_ref": "DESIGN.md §4 C10",
        "note": "std's stable_sort and Vec::remove replaced by small models (environment); one question per query; inserts from 1-region maps, removes from 1-3-region maps",
        "technique": _T + "; symbolic layouts, one step + one question per query, std sort/remove models",
    },
    "C12": {
        "level": "mmap/munmap are models with a ghost table; (i) drop of an owned region at symbolic (address,size) issues exactly one munmap of exactly that mapping, an external raw-pointer region none; (ii) histories build/clone/insert/remove over two owned regions with every drop order: after each drop the set of live mappings equals the reachability model, at the end every mapping was released exactly once and munmap never saw an unknown (base,len).",
        "design_ref": "DESIGN.md §4 C12",
        "note": "the 'programs' (must-not-compile) half is the borrow checker's and is not claimed; histories with >= 3 live maps outside the bound; from_arc_regions used inside histories",
        "technique": _T + "; libc models with ghost mapping table (-Z c-ffi), one drop order per query",
    },
    "C15": {
        "level": "All request parameters unconstrained (size, prot, flags, file offset, file length, raw pointer, guest base; mmap and lseek may fail): Err variant iff the model predicate (MapFixed, InvalidOffsetLength, SeekEnd, MappingPastEof, InvalidPointer, Mmap, InvalidGuestRegion), nothing left mapped on any error (including the path where mmap succeeded and the guest range check failed later), on success the getters return the request and the mmap model saw exactly (size, prot, flags, fd, offset).",
        "design_ref": "DESIGN.md §4 C15",
        "note": "file/kernel coherence is outside; Xen flag validation is added by the xen harness crate",
        "technique": _T + "; unconstrained request parameters, libc models record the kernel requests",
    },
})

TEXT.update({
    "C13": {
        "level": "Differential against std: each volatile adapter and the corresponding std::io::Read/Write impl run on twin streams with symbolic content, length and (cursors) 64-bit position, two consecutive calls: same count, same landed bytes incl. the untouched tail (symbolic index), same remaining slice/position/vector; exact variants succeed iff std's do, with UnexpectedEof/WriteZero. Descriptor path: exactly one read(2)/write(2) with the guard's pointer and the buffer length, result passed through.",
        "design_ref": "DESIGN.md §4 C13",
        "note": "streams <= 10 bytes, 2 calls; Vec shapes concrete; Vec::write_all_volatile outside (engine memory)",
        "technique": _T + "; differential against the std::io impls on twin streams",
    },
})

TEXT.update({
    "C07": {
        "level": "No harness family of its own: the designated total harnesses (slice derivations and accessors, slice/region buffer and object accesses, bitmap operations, guest-memory queries and accesses over symbolic 64-bit layouts, cursor adapters, zero-length accesses) run with every guest-chosen address/offset/length/count unconstrained, and Kani's own checks - panic, unwrap on None/Err, arithmetic overflow (checked build), division by zero, slice index, and unwinding assertions (termination within the derived bound) - must all be unreachable.",
        "design_ref": "DESIGN.md §4 C07",
        "note": "bounded container sizes; documented logic panics and constructor-time configuration excluded; one encoding covers checked and unchecked builds (no overflow reachable => same values)",
        "technique": _T + "; Kani's built-in panic/overflow/unwinding checks over unconstrained guest-controlled arguments",
    },
    "C08": {
        "level": "Rely/guarantee encoding of concurrency: the std atomic helpers are stubbed so that before every atomic step of the REAL operation (set/reset range, set/reset bit, get_and_reset, clone) the environment - all other threads - performs a solver-chosen sequence (<= 3 steps in total) of 'mark a page' / 'fetch-and-clear the word' on that word; ghost sets record who marked and harvested what. After a final real harvest: every page marked by anyone is in some harvest result (unless the operation under test is a reset of that page), and no harvest reports an unmarked page. Every interleaving within the budget is one assignment of solver variables.",
        "design_ref": "DESIGN.md §3 E4, §4 C08",
        "note": "sequentially consistent memory; bitmaps of 8-128 pages; environment alphabet {mark, harvest}; each step of the code under test is checked to be in the RMW alphabet",
        "technique": _T + "; interference stubs on core::sync::atomic helpers (schedule = solver variables)",
    },
    "C14": {
        "level": "Scripted ReadVolatile/WriteVolatile streams (transfer up to a symbolic amount / zero / EINTR / hard error) drive the real retry_eintr!, default read_exact_volatile/write_all_volatile, the slice-level stream methods and - over the mock - the guest-level try_access continuation; a reference interpreter gives the expected outcome; delivered bytes are stamped so loss, duplication and reordering show in memory (symbolic index), accepted bytes are logged in order. The script KINDS are a grid of solver queries (every script up to length 2, thorough length 3), amounts, counts and addresses are symbolic.",
        "design_ref": "DESIGN.md §3 E8, §4 C14",
        "note": "scripts <= 3 calls, counts <= 3; EINTR-first scripts cost 5-7 minutes each (the library's own drop of io::Error), so quick runs them by representatives; unwinding failures count as violations (non-terminating retry)",
        "technique": _T + "; scripted fault streams, reference interpreter, per-loop unwind bounds",
    },
})

# ---- as-built refinements of the level texts -------------------------------------------------------------------------------
TEXT["C05"]["level"] = ("Soundness of dirty marks in three layers. (a) Slice level: the container carries a recording bitmap behind the crate's real BaseSlice at a "
    "symbolic root offset; for every write-type accessor (buffer, slice, object, typed ref, element array, copy_from, slice-to-slice incl. multi-byte element arrays, "
    "atomic store, stream reads from &[u8]) every byte that differs from the pre-state and every byte reported written is covered by a mark that reached the root. "
    "(b) The real AtomicBitmap's page arithmetic for unconstrained 64-bit ranges on a grid of page sizes, and (c) end-to-end with the real AtomicBitmap under a "
    "VolatileSlice incl. derivation chains: a byte address is dirty IFF its page overlaps the bytes written. Region level (real GuestRegionMmap) and guest-memory level "
    "(real try_access over the mock: marks land in the bitmap of the region that owns the byte, at that region's own offset). A failing descriptor read marks its whole target.")
TEXT["C05"]["note"] = "Recorder bitmap is harness code (logs mark_dirty) behind the real BaseSlice; containers <= 16 bytes; page sizes are grid points"
TEXT["C16"]["level"] = ("Precision of dirty marks, same three layers as C05: every mark lies inside the n bytes reported written; reads, loads, derivations, stream writes out "
    "of memory and requests rejected before any byte moved record nothing; with the real AtomicBitmap exactly the overlapping pages are dirty (iff); at region and "
    "guest-memory level no other region and no other offset is marked; a successful descriptor read marks exactly the bytes delivered, a failing one its whole target "
    "(the documented exception).")
TEXT["C04"]["level"] += " Stream forms over in-memory slices and the mapped-region container (real GuestRegionMmap) are included."
TEXT["C09"]["level"] += " Also ArcSlice (clone shares the set, slices of slices add offsets), Option<B> and the unit bitmap."
TEXT["C06"]["level"] += " Entry points: slice level (all buffer/object/copy/stream forms, typed refs and element arrays) and region level (real GuestRegionMmap)."
TEXT["C12"]["level"] += " Owned file mappings additionally close their descriptor; an external mapping with a file offset attached stays external."
TEXT["C18"]["level"] = ("Zero-length accesses at all three layers: slice (recording bitmap), region (real GuestRegionMmap) and guest memory (real default methods and blanket impl over "
    "a 2-region mock with symbolic layout): empty buffers and zero-sized objects at ANY address return Ok(0)/Ok(()), zero-count stream transfers and copies of zero-sized "
    "elements succeed, nothing panics, no byte changes, nothing is marked; plus the Xen build's advance-mapped region.")
TEXT["C18"]["note"] = "three defects found by these harnesses were repaired (known_findings.json 'fixed'); on-demand Xen regions are not claimed at zero length"
TEXT["C02"]["level"] += " Region-level default methods (address_in_range, check_address, checked_offset, to_region_addr, get_host_address) are queried on one region with symbolic base and size."
TEXT["C03"]["level"] += " A two-step history (buffer write, then object read through another route at an independent address) checks read-back against the model."
