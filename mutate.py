#!/usr/bin/env python3
"""Apply a patch (or a sed-style python edit) to /repo, run checks, revert.  Development aid only:
   usage: mutate.py <patch.diff> <PID> [<PID>...] [--tier quick] [--tests]"""
import subprocess, sys, os
args = sys.argv[1:]
tier = "quick"
tests = False
if "--tier" in args:
    i = args.index("--tier"); tier = args[i + 1]; del args[i:i + 2]
if "--tests" in args:
    args.remove("--tests"); tests = True
patch, pids = os.path.abspath(args[0]), args[1:]
assert subprocess.run(["git", "-C", "/repo", "status", "--porcelain", "--untracked-files=no"], capture_output=True).stdout.strip() == b"", "/repo dirty"
subprocess.check_call(["git", "-C", "/repo", "apply", patch])
try:
    if tests:
        r = subprocess.run("cd /repo && cargo test --workspace --no-fail-fast --offline 2>&1 | grep -E '^test result|FAILED|failed' | head", shell=True)
    for pid in pids:
        r = subprocess.run([os.path.join(os.path.dirname(os.path.abspath(__file__)), "vmverif"), "check", pid, "--tier", tier])
        print("== %s on %s: exit %d" % (pid, os.path.basename(patch), r.returncode), flush=True)
finally:
    subprocess.check_call(["git", "-C", "/repo", "checkout", "--", "."])
