//! C14 - stream transfers lose or duplicate nothing under short I/O, EINTR and errors (E8: scripted streams).
//!
//! `Script` is a harness-side ReadVolatile/WriteVolatile whose per-call behaviour comes from a symbolic script
//! (transfer up to k bytes / zero / EINTR / hard error).  Bytes it delivers are stamped 0xA0, 0xA1, ... so loss,
//! duplication and reordering are visible in guest memory; bytes it accepts are logged in order.
use crate::common::*;
use crate::mock::{self, MockMem};
use crate::regn::{gkind, GK};
use std::io::ErrorKind;
use vm_memory::bitmap::BitmapSlice;
use vm_memory::guest_memory::Error as GErr;
use vm_memory::{Bytes, GuestAddress, ReadVolatile, VolatileMemoryError as VErr, VolatileSlice, WriteVolatile};

pub const K: usize = 4; // maximum script length
pub const STAMP0: u8 = 0xA0;

#[derive(Clone, Copy)]
pub struct Script {
    pub kind: [u8; K], // 0 = transfer up to amt bytes, 1 = zero, 2 = EINTR, 3 = hard error
    pub amt: [usize; K],
    pub len: usize, // script length in use
    pub pos: usize,
    pub moved: usize,
    pub sink: [u8; 8],
    pub exhausted: bool,
}

impl Script {
    /// The *kinds* of the script steps are concrete (CODE: base-4 digits, least significant first; the grid of scripts is
    /// enumerated as separate solver queries because a symbolic error variant makes the library's own `drop` of the
    /// io::Error in `retry_eintr!` explode - symex ran out of 30 GB); the transfer amounts stay symbolic.
    pub fn from_code(code: u32, len: usize) -> Self {
        let mut kind = [0u8; K];
        let amt: [usize; K] = kani::any();
        let mut c = code;
        let mut i = 0;
        while i < K {
            kind[i] = (c % 4) as u8;
            c /= 4;
            kani::assume(amt[i] >= 1);
            i += 1;
        }
        Script { kind, amt, len, pos: 0, moved: 0, sink: [0; 8], exhausted: false }
    }
    fn step(&mut self, want: usize) -> Result<usize, VErr> {
        if self.pos >= self.len {
            // a zero-length transfer or a hard error ends every transfer form: calling the stream again after one is a
            // violation (e.g. a retry loop that retries on errors other than EINTR), not a script that is too short
            assert!(
                !(self.pos > 0 && (self.kind[self.pos - 1] == 1 || self.kind[self.pos - 1] == 3)),
                "stream called again after a zero-length transfer or a hard error"
            );
            // otherwise the script is too short for this execution: outside the bound, cut the path
            self.exhausted = true;
            kani::assume(false);
        }
        let i = self.pos;
        self.pos += 1;
        match self.kind[i] {
            2 => Err(VErr::IOError(ErrorKind::Interrupted.into())),
            3 => Err(VErr::IOError(ErrorKind::PermissionDenied.into())),
            1 => Ok(0),
            _ => Ok(core::cmp::min(self.amt[i], want)),
        }
    }
}

impl ReadVolatile for Script {
    fn read_volatile<B: BitmapSlice>(&mut self, buf: &mut VolatileSlice<B>) -> Result<usize, VErr> {
        let n = self.step(buf.len())?;
        let g = buf.ptr_guard_mut();
        let mut k = 0;
        while k < n {
            // SAFETY: k < n <= buf.len()
            unsafe { *g.as_ptr().add(k) = STAMP0.wrapping_add((self.moved + k) as u8) };
            k += 1;
        }
        self.moved += n;
        Ok(n)
    }
}

impl WriteVolatile for Script {
    fn write_volatile<B: BitmapSlice>(&mut self, buf: &VolatileSlice<B>) -> Result<usize, VErr> {
        let n = self.step(buf.len())?;
        let g = buf.ptr_guard();
        let mut k = 0;
        while k < n {
            if self.moved + k < 8 {
                // SAFETY: k < n <= buf.len()
                self.sink[self.moved + k] = unsafe { *g.as_ptr().add(k) };
            }
            k += 1;
        }
        self.moved += n;
        Ok(n)
    }
}

#[derive(Clone, Copy, PartialEq, Eq)]
pub enum Out {
    Ok(usize),   // bytes moved (exact forms: must equal count)
    Hard(usize), // hard error after this many bytes
    Eof(usize),  // zero-length transfer in an exact form
}

/// reference interpreter, exact forms: EINTR is retried and consumes nothing; the first hard error or zero ends it
pub fn model_exact(s: &Script, count: usize) -> Out {
    let mut got = 0;
    let mut i = 0;
    let mut out = Out::Ok(0);
    let mut done = count == 0;
    while i < K {
        if !done {
            kani::assume(i < s.len); // executions that need a longer script are outside the bound
            match s.kind[i] {
                2 => {}
                3 => {
                    out = Out::Hard(got);
                    done = true;
                }
                1 => {
                    out = Out::Eof(got);
                    done = true;
                }
                _ => {
                    got += core::cmp::min(s.amt[i], count - got);
                    if got == count {
                        done = true;
                    }
                }
            }
        }
        i += 1;
    }
    kani::assume(done);
    if let Out::Ok(_) = out {
        Out::Ok(got)
    } else {
        out
    }
}

/// up-to forms on one slice: EINTR retried, the first other outcome is returned
pub fn model_upto(s: &Script, want: usize) -> Out {
    let mut i = 0;
    let mut out = Out::Ok(0);
    let mut done = false;
    while i < K {
        if !done {
            kani::assume(i < s.len);
            match s.kind[i] {
                2 => {}
                3 => {
                    out = Out::Hard(0);
                    done = true;
                }
                1 => done = true,
                _ => {
                    out = Out::Ok(core::cmp::min(s.amt[i], want));
                    done = true;
                }
            }
        }
        i += 1;
    }
    kani::assume(done);
    out
}

const N: usize = 8;

fn is_io(e: &VErr, k: ErrorKind) -> bool {
    matches!(e, VErr::IOError(io) if io.kind() == k)
}

/// slice level, stream -> memory
fn slice_read_body<const CODE: u32, const SL: usize, const CMAX: usize, const EXACT: bool>() {
    let mut mem: [u8; N] = kani::any();
    let before = mem;
    let (addr, count): (usize, usize) = (kani::any(), kani::any());
    kani::assume(count <= CMAX);
    let mut s = Script::from_code(CODE, SL);
    let fits = addr as u128 + count as u128 <= N as u128;
    let mut moved = 0;
    if EXACT {
        let r = VolatileSlice::from(&mut mem[..]).read_exact_volatile_from(addr, &mut s, count);
        if !fits {
            assert!(matches!(r, Err(VErr::OutOfBounds { .. }) | Err(VErr::Overflow { .. })) && s.pos == 0);
        } else {
            match (model_exact(&s, count), &r) {
                (Out::Ok(n), Ok(())) => {
                    assert!(n == count);
                    moved = n;
                }
                (Out::Hard(n), Err(e)) => {
                    assert!(is_io(e, ErrorKind::PermissionDenied));
                    moved = n;
                }
                (Out::Eof(n), Err(e)) => {
                    assert!(is_io(e, ErrorKind::UnexpectedEof));
                    moved = n;
                }
                _ => assert!(false),
            }
        }
        leak(r);
    } else {
        let r = VolatileSlice::from(&mut mem[..]).read_volatile_from(addr, &mut s, count);
        if addr > N {
            assert!(r.is_err() && s.pos == 0);
        } else {
            let want = core::cmp::min(count, N - addr);
            match (model_upto(&s, want), &r) {
                (Out::Ok(n), Ok(m)) => {
                    assert!(n == *m);
                    moved = n;
                }
                (Out::Hard(_), Err(e)) => assert!(is_io(e, ErrorKind::PermissionDenied)),
                _ => assert!(false),
            }
        }
        leak(r);
    }
    // every byte consumed from the reader is stored at the next guest address in order; nothing else changes
    assert!(s.moved == moved);
    kani::cover!(s.pos > 0); // the stream was actually called
    let i: usize = kani::any();
    kani::assume(i < N);
    if i >= addr && i - addr < moved {
        assert!(mem[i] == STAMP0 + (i - addr) as u8);
    } else {
        assert!(mem[i] == before[i]);
    }
}

/// slice level, memory -> stream
fn slice_write_body<const CODE: u32, const SL: usize, const CMAX: usize, const EXACT: bool>() {
    let mut mem: [u8; N] = kani::any();
    let before = mem;
    let (addr, count): (usize, usize) = (kani::any(), kani::any());
    kani::assume(count <= CMAX);
    let mut s = Script::from_code(CODE, SL);
    let fits = addr as u128 + count as u128 <= N as u128;
    let mut moved = 0;
    if EXACT {
        let r = VolatileSlice::from(&mut mem[..]).write_all_volatile_to(addr, &mut s, count);
        if !fits {
            assert!(r.is_err() && s.pos == 0);
        } else {
            match (model_exact(&s, count), &r) {
                (Out::Ok(n), Ok(())) => {
                    assert!(n == count);
                    moved = n;
                }
                (Out::Hard(n), Err(e)) => {
                    assert!(is_io(e, ErrorKind::PermissionDenied));
                    moved = n;
                }
                (Out::Eof(n), Err(e)) => {
                    assert!(is_io(e, ErrorKind::WriteZero));
                    moved = n;
                }
                _ => assert!(false),
            }
        }
        leak(r);
    } else {
        let r = VolatileSlice::from(&mut mem[..]).write_volatile_to(addr, &mut s, count);
        if addr > N {
            assert!(r.is_err() && s.pos == 0);
        } else {
            let want = core::cmp::min(count, N - addr);
            match (model_upto(&s, want), &r) {
                (Out::Ok(n), Ok(m)) => {
                    assert!(n == *m);
                    moved = n;
                }
                (Out::Hard(_), Err(e)) => assert!(is_io(e, ErrorKind::PermissionDenied)),
                _ => assert!(false),
            }
        }
        leak(r);
    }
    // every byte handed to the writer is the next guest byte in order; guest memory is unchanged
    assert!(s.moved == moved);
    kani::cover!(s.pos > 0);
    let j: usize = kani::any();
    kani::assume(j < moved);
    assert!(s.sink[j] == before[addr + j]);
    let i: usize = kani::any();
    kani::assume(i < N);
    assert!(mem[i] == before[i]);
}


/// guest-memory level (real try_access + blanket impl over the mock): stream -> memory, range may span two regions
/// and end in a hole
fn guest_read_body<const CODE: u32, const SL: usize, const CMAX: usize, const EXACT: bool>() {
    let mut pool: [u8; mock::POOL] = kani::any();
    let before = pool;
    let m = mock::any_layout(&mut pool, 2);
    let a: u64 = kani::any();
    let count: usize = kani::any();
    kani::assume(count >= 1 && count <= CMAX);
    let mut s = Script::from_code(CODE, SL);
    // reference: walk the script; each call may move at most min(remaining count, rest of the current region)
    let mut got = 0usize;
    let mut out = Out::Ok(0);
    let mut done = false;
    let mut unmapped_first = false;
    let mut i = 0;
    while i < K {
        if !done {
            match m.owner(a as u128 + got as u128) {
                None => {
                    done = true;
                    if got == 0 {
                        unmapped_first = true;
                    }
                }
                Some(r) => {
                    kani::assume(i < s.len);
                    let rest = (m.regions[r].start as u128 + m.regions[r].len as u128 - (a as u128 + got as u128)) as usize;
                    let want = core::cmp::min(count - got, rest);
                    match s.kind[i] {
                        2 => {}
                        3 => {
                            out = Out::Hard(got);
                            done = true;
                        }
                        1 => done = true,
                        _ => {
                            got += core::cmp::min(s.amt[i], want);
                            if got == count {
                                done = true;
                            }
                        }
                    }
                }
            }
        }
        i += 1;
    }
    if !done {
        // the loop above may stop with the range ending in a hole right after the last script step
        kani::assume(m.owner(a as u128 + got as u128).is_none());
        if got == 0 {
            unmapped_first = true;
        }
    }
    if EXACT {
        let r = m.read_exact_volatile_from(GuestAddress(a), &mut s, count);
        match (&r, out) {
            (Ok(()), Out::Ok(_)) => assert!(got == count && !unmapped_first),
            (Err(GErr::PartialBuffer { expected, completed }), Out::Ok(_)) => {
                assert!(!unmapped_first && got < count && *expected == count && *completed == got)
            }
            (Err(e), Out::Ok(_)) => assert!(unmapped_first && gkind(e) == GK::InvalidGuestAddress),
            (Err(GErr::IOError(e)), Out::Hard(_)) => assert!(e.kind() == ErrorKind::PermissionDenied),
            _ => assert!(false),
        }
        leak(r);
    } else {
        let r = m.read_volatile_from(GuestAddress(a), &mut s, count);
        match (&r, out) {
            (Ok(n), Out::Ok(_)) => assert!(*n == got && !unmapped_first),
            (Err(e), Out::Ok(_)) => assert!(unmapped_first && gkind(e) == GK::InvalidGuestAddress),
            (Err(GErr::IOError(e)), Out::Hard(_)) => assert!(e.kind() == ErrorKind::PermissionDenied),
            _ => assert!(false),
        }
        leak(r);
    }
    assert!(s.moved == got);
    kani::cover!(s.pos > 0);
    // consumed bytes are stored at consecutive guest addresses from `a`, each in the region that owns it
    let ri: usize = kani::any();
    let o: usize = kani::any();
    kani::assume(ri < 2 && (o as u64) < m.regions[ri].len);
    let ga = m.regions[ri].start as u128 + o as u128;
    if ga >= a as u128 && ga - (a as u128) < got as u128 {
        assert!(pool[ri * mock::RSZ + o] == STAMP0 + (ga - a as u128) as u8);
    } else {
        assert!(pool[ri * mock::RSZ + o] == before[ri * mock::RSZ + o]);
    }
}

// ---- script grid (generated): I = EINTR, T = transfer up to a symbolic amount, Z = zero, H = hard error; Z/H end a script.
// quick (q_*): every script of length <= 2; thorough (t_*): every script of length exactly 3 ----
macro_rules! sc {
    ($name:ident, $body:ident, $code:expr, $SL:expr, $C:expr, $E:expr) => {
        #[kani::proof]
        fn $name() {
            $body::<{ $code }, { $SL }, { $C }, { $E }>()
        }
    };
}
pub mod q_slice_read_exact {
    use super::*;
    sc!(s_z, slice_read_body, 1, 1, 3, true);
    sc!(s_h, slice_read_body, 3, 1, 3, true);
    sc!(s_iz, slice_read_body, 6, 2, 3, true);
    sc!(s_ih, slice_read_body, 14, 2, 3, true);
    sc!(s_tz, slice_read_body, 4, 2, 3, true);
    sc!(s_th, slice_read_body, 12, 2, 3, true);
    sc!(s_it, slice_read_body, 2, 2, 3, true);
    sc!(s_ti, slice_read_body, 8, 2, 3, true);
    sc!(s_tt, slice_read_body, 0, 2, 3, true);
}
pub mod q_slice_read_upto {
    use super::*;
    sc!(s_z, slice_read_body, 1, 1, 3, false);
    sc!(s_h, slice_read_body, 3, 1, 3, false);
    sc!(s_iz, slice_read_body, 6, 2, 3, false);
    sc!(s_ih, slice_read_body, 14, 2, 3, false);
    sc!(s_it, slice_read_body, 2, 2, 3, false);
}
pub mod q_slice_write_all {
    use super::*;
    sc!(s_z, slice_write_body, 1, 1, 3, true);
    sc!(s_h, slice_write_body, 3, 1, 3, true);
    sc!(s_iz, slice_write_body, 6, 2, 3, true);
    sc!(s_ih, slice_write_body, 14, 2, 3, true);
    sc!(s_tz, slice_write_body, 4, 2, 3, true);
    sc!(s_th, slice_write_body, 12, 2, 3, true);
    sc!(s_it, slice_write_body, 2, 2, 3, true);
    sc!(s_ti, slice_write_body, 8, 2, 3, true);
    sc!(s_tt, slice_write_body, 0, 2, 3, true);
}
pub mod q_slice_write_upto {
    use super::*;
    sc!(s_z, slice_write_body, 1, 1, 3, false);
    sc!(s_h, slice_write_body, 3, 1, 3, false);
    sc!(s_iz, slice_write_body, 6, 2, 3, false);
    sc!(s_ih, slice_write_body, 14, 2, 3, false);
    sc!(s_it, slice_write_body, 2, 2, 3, false);
}
pub mod q_guest_read_exact {
    use super::*;
    sc!(s_z, guest_read_body, 1, 1, 3, true);
    sc!(s_h, guest_read_body, 3, 1, 3, true);
    sc!(s_iz, guest_read_body, 6, 2, 3, true);
    sc!(s_ih, guest_read_body, 14, 2, 3, true);
    sc!(s_tz, guest_read_body, 4, 2, 3, true);
    sc!(s_th, guest_read_body, 12, 2, 3, true);
    sc!(s_it, guest_read_body, 2, 2, 3, true);
    sc!(s_ti, guest_read_body, 8, 2, 3, true);
    sc!(s_tt, guest_read_body, 0, 2, 3, true);
}
pub mod q_guest_read_upto {
    use super::*;
    sc!(s_z, guest_read_body, 1, 1, 3, false);
    sc!(s_h, guest_read_body, 3, 1, 3, false);
    sc!(s_iz, guest_read_body, 6, 2, 3, false);
    sc!(s_ih, guest_read_body, 14, 2, 3, false);
    sc!(s_tz, guest_read_body, 4, 2, 3, false);
    sc!(s_th, guest_read_body, 12, 2, 3, false);
    sc!(s_it, guest_read_body, 2, 2, 3, false);
    sc!(s_ti, guest_read_body, 8, 2, 3, false);
    sc!(s_tt, guest_read_body, 0, 2, 3, false);
}
pub mod t_slice_read_exact {
    use super::*;
    sc!(s_iiz, slice_read_body, 26, 3, 3, true);
    sc!(s_iih, slice_read_body, 58, 3, 3, true);
    sc!(s_itz, slice_read_body, 18, 3, 3, true);
    sc!(s_ith, slice_read_body, 50, 3, 3, true);
    sc!(s_tiz, slice_read_body, 24, 3, 3, true);
    sc!(s_tih, slice_read_body, 56, 3, 3, true);
    sc!(s_ttz, slice_read_body, 16, 3, 3, true);
    sc!(s_tth, slice_read_body, 48, 3, 3, true);
    sc!(s_iit, slice_read_body, 10, 3, 3, true);
    sc!(s_iti, slice_read_body, 34, 3, 3, true);
    sc!(s_itt, slice_read_body, 2, 3, 3, true);
    sc!(s_tii, slice_read_body, 40, 3, 3, true);
    sc!(s_tit, slice_read_body, 8, 3, 3, true);
    sc!(s_tti, slice_read_body, 32, 3, 3, true);
    sc!(s_ttt, slice_read_body, 0, 3, 3, true);
}
pub mod t_slice_read_upto {
    use super::*;
    sc!(s_iiz, slice_read_body, 26, 3, 3, false);
    sc!(s_iih, slice_read_body, 58, 3, 3, false);
    sc!(s_iit, slice_read_body, 10, 3, 3, false);
}
pub mod t_slice_write_all {
    use super::*;
    sc!(s_iiz, slice_write_body, 26, 3, 3, true);
    sc!(s_iih, slice_write_body, 58, 3, 3, true);
    sc!(s_itz, slice_write_body, 18, 3, 3, true);
    sc!(s_ith, slice_write_body, 50, 3, 3, true);
    sc!(s_tiz, slice_write_body, 24, 3, 3, true);
    sc!(s_tih, slice_write_body, 56, 3, 3, true);
    sc!(s_ttz, slice_write_body, 16, 3, 3, true);
    sc!(s_tth, slice_write_body, 48, 3, 3, true);
    sc!(s_iit, slice_write_body, 10, 3, 3, true);
    sc!(s_iti, slice_write_body, 34, 3, 3, true);
    sc!(s_itt, slice_write_body, 2, 3, 3, true);
    sc!(s_tii, slice_write_body, 40, 3, 3, true);
    sc!(s_tit, slice_write_body, 8, 3, 3, true);
    sc!(s_tti, slice_write_body, 32, 3, 3, true);
    sc!(s_ttt, slice_write_body, 0, 3, 3, true);
}
pub mod t_slice_write_upto {
    use super::*;
    sc!(s_iiz, slice_write_body, 26, 3, 3, false);
    sc!(s_iih, slice_write_body, 58, 3, 3, false);
    sc!(s_iit, slice_write_body, 10, 3, 3, false);
}
pub mod t_guest_read_exact {
    use super::*;
    sc!(s_iiz, guest_read_body, 26, 3, 3, true);
    sc!(s_iih, guest_read_body, 58, 3, 3, true);
    sc!(s_itz, guest_read_body, 18, 3, 3, true);
    sc!(s_ith, guest_read_body, 50, 3, 3, true);
    sc!(s_tiz, guest_read_body, 24, 3, 3, true);
    sc!(s_tih, guest_read_body, 56, 3, 3, true);
    sc!(s_ttz, guest_read_body, 16, 3, 3, true);
    sc!(s_tth, guest_read_body, 48, 3, 3, true);
    sc!(s_iit, guest_read_body, 10, 3, 3, true);
    sc!(s_iti, guest_read_body, 34, 3, 3, true);
    sc!(s_itt, guest_read_body, 2, 3, 3, true);
    sc!(s_tii, guest_read_body, 40, 3, 3, true);
    sc!(s_tit, guest_read_body, 8, 3, 3, true);
    sc!(s_tti, guest_read_body, 32, 3, 3, true);
    sc!(s_ttt, guest_read_body, 0, 3, 3, true);
}
pub mod t_guest_read_upto {
    use super::*;
    sc!(s_iiz, guest_read_body, 26, 3, 3, false);
    sc!(s_iih, guest_read_body, 58, 3, 3, false);
    sc!(s_itz, guest_read_body, 18, 3, 3, false);
    sc!(s_ith, guest_read_body, 50, 3, 3, false);
    sc!(s_tiz, guest_read_body, 24, 3, 3, false);
    sc!(s_tih, guest_read_body, 56, 3, 3, false);
    sc!(s_ttz, guest_read_body, 16, 3, 3, false);
    sc!(s_tth, guest_read_body, 48, 3, 3, false);
    sc!(s_iit, guest_read_body, 10, 3, 3, false);
    sc!(s_iti, guest_read_body, 34, 3, 3, false);
    sc!(s_itt, guest_read_body, 2, 3, 3, false);
    sc!(s_tii, guest_read_body, 40, 3, 3, false);
    sc!(s_tit, guest_read_body, 8, 3, 3, false);
    sc!(s_tti, guest_read_body, 32, 3, 3, false);
    sc!(s_ttt, guest_read_body, 0, 3, 3, false);
}
