//! C12 - a mapping lives exactly as long as something can still reach it (standard build).
//! The `mmap`/`munmap` models (cffi.rs) keep a ghost table of live mappings; `munmap` of anything that is not exactly a
//! live mapping counts as BAD_MUNMAP.  (i) drop step with symbolic (address, size); (ii) short histories over two
//! owned regions, one drop order per query.
use crate::cffi::{self, *};
use crate::common::*;
use crate::stdstubs::*;
use std::sync::Arc;
use vm_memory::mmap::{MmapRegion, MmapRegionBuilder};
use vm_memory::{GuestAddress, GuestMemory, GuestMemoryMmap, GuestMemoryRegion, GuestRegionMmap};

fn ghost() -> (usize, usize, usize, usize) {
    // SAFETY: single-threaded
    unsafe { (N_MMAP, N_MUNMAP, BAD_MUNMAP, live_count()) }
}
fn slot_live(i: usize) -> bool {
    unsafe { MAPS[i].live }
}
fn set_bases(a0: usize, a1: usize) {
    unsafe {
        NEXT_BASE[0] = a0;
        NEXT_BASE[1] = a1;
    }
}

/// (i) an owned anonymous region is unmapped exactly once, with its own (address, size), when dropped
#[kani::proof]
fn drop_step_owned() {
    cffi::link();
    let addr: usize = kani::any();
    let size: usize = kani::any();
    kani::assume(addr != usize::MAX); // MAP_FAILED
    set_bases(addr, 0);
    let via_new: bool = kani::any();
    let with_file: bool = kani::any();
    let r = if via_new {
        MmapRegion::<()>::new(size)
    } else if with_file {
        // owned file mapping: same obligation, plus the descriptor is closed when the region goes away
        use std::os::fd::FromRawFd;
        unsafe { FILE_LEN = i64::MAX };
        let start: u64 = kani::any();
        kani::assume(start as u128 + size as u128 <= i64::MAX as u128);
        MmapRegion::<()>::from_file(vm_memory::FileOffset::new(unsafe { std::fs::File::from_raw_fd(12) }, start), size)
    } else {
        let prot: i32 = kani::any();
        let flags: i32 = kani::any();
        kani::assume(flags & libc::MAP_FIXED == 0);
        MmapRegionBuilder::<()>::new(size).with_mmap_prot(prot).with_mmap_flags(flags).build()
    };
    match r {
        Ok(reg) => {
            assert!(ghost() == (1, 0, 0, 1));
            assert!(reg.owned() && reg.as_ptr() as usize == addr && reg.size() == size);
            drop(reg);
            assert!(ghost() == (1, 1, 0, 0)); // one munmap, of exactly (addr, size): otherwise BAD_MUNMAP
            assert!(unsafe { N_CLOSE } == if !via_new && with_file { 1 } else { 0 });
        }
        Err(e) => {
            leak(e);
            assert!(false); // the model's mmap succeeds here
        }
    }
    kani::cover!(size == 0);
    kani::cover!(via_new && size == usize::MAX && addr == 0);
    kani::cover!(!via_new && with_file && size > 0);
}

/// a region wrapped around an externally provided mapping is never unmapped by the library
#[kani::proof]
fn drop_step_raw() {
    cffi::link();
    let addr: usize = kani::any();
    let size: usize = kani::any();
    kani::assume(addr % cffi::PAGE == 0);
    let via_build_raw: bool = kani::any();
    let with_file: bool = kani::any();
    let prot: i32 = kani::any();
    let flags: i32 = kani::any();
    // SAFETY: the pointer is never dereferenced
    let r = unsafe {
        if via_build_raw {
            MmapRegion::<()>::build_raw(addr as *mut u8, size, prot, flags)
        } else if with_file {
            // an external mapping OF A FILE: the file offset is recorded, ownership stays with the caller
            use std::os::fd::FromRawFd;
            let fo = vm_memory::FileOffset::new(std::fs::File::from_raw_fd(11), kani::any());
            MmapRegionBuilder::<()>::new(size).with_raw_mmap_pointer(addr as *mut u8).with_file_offset(fo).build()
        } else {
            MmapRegionBuilder::<()>::new(size).with_raw_mmap_pointer(addr as *mut u8).build()
        }
    };
    match r {
        Ok(reg) => {
            assert!(!reg.owned() && reg.as_ptr() as usize == addr);
            drop(reg);
            assert!(ghost() == (0, 0, 0, 0));
        }
        Err(e) => {
            leak(e);
            assert!(false);
        }
    }
    kani::cover!(addr == 0);
    kani::cover!(addr != 0 && via_build_raw);
    kani::cover!(!via_build_raw && with_file);
}

/// two owned regions built through the public constructor, symbolic host addresses and sizes.  Maps are assembled with
/// `from_arc_regions`: `from_regions` (drain + map + collect) followed by real drops runs CBMC out of memory (> 25 GB);
/// its result semantics are decided in c10.rs.
macro_rules! two_regions {
    ($r0:ident, $r1:ident) => {
        cffi::link();
        let (h0, h1): (usize, usize) = (kani::any(), kani::any());
        kani::assume(h0 != usize::MAX && h1 != usize::MAX && h0 != h1);
        set_bases(h0, h1);
        let (s0, s1): (usize, usize) = (kani::any(), kani::any());
        kani::assume(s0 >= 1 && s1 >= 1 && s0 <= 0x1000 && s1 <= 0x1000);
        let $r0 = match GuestRegionMmap::<()>::from_range(GuestAddress(0x1000), s0, None) {
            Ok(r) => r,
            Err(e) => {
                leak(e);
                assert!(false);
                return;
            }
        };
        let $r1 = match GuestRegionMmap::<()>::from_range(GuestAddress(0x10000), s1, None) {
            Ok(r) => r,
            Err(e) => {
                leak(e);
                assert!(false);
                return;
            }
        };
        assert!(ghost() == (2, 0, 0, 2));
    };
}

/// build -> clone map -> drop in either order
#[kani::proof]
fn history_clone() {
    two_regions!(r0, r1);
    let m0 = match GuestMemoryMmap::from_arc_regions(vec![Arc::new(r0), Arc::new(r1)]) {
        Ok(m) => m,
        Err(e) => {
            leak(e);
            assert!(false);
            return;
        }
    };
    let m1 = m0.clone();
    let first: bool = kani::any();
    if first {
        drop(m0);
        assert!(ghost() == (2, 0, 0, 2)); // the clone still owns both
        assert!(m1.num_regions() == 2);
        drop(m1);
    } else {
        drop(m1);
        assert!(ghost() == (2, 0, 0, 2));
        drop(m0);
    }
    assert!(ghost() == (2, 2, 0, 0));
    kani::cover!(first);
    kani::cover!(!first);
}

/// build -> insert_region -> drop old/new in either order
fn history_insert_body<const OLD_FIRST: bool>() {
    two_regions!(r0, r1);
    let m0 = match GuestMemoryMmap::from_arc_regions(vec![Arc::new(r0)]) {
        Ok(m) => m,
        Err(e) => {
            leak(e);
            assert!(false);
            return;
        }
    };
    let m1 = match m0.insert_region(Arc::new(r1)) {
        Ok(m) => m,
        Err(e) => {
            leak(e);
            assert!(false);
            return;
        }
    };
    assert!(ghost() == (2, 0, 0, 2));
    if OLD_FIRST {
        drop(m0);
        assert!(ghost() == (2, 0, 0, 2)); // r0 is still reachable from the derived map
        assert!(m1.num_regions() == 2);
        drop(m1);
    } else {
        drop(m1);
        // r1 was only reachable from the derived map: unmapped now; r0 still mapped for the old map
        assert!(ghost() == (2, 1, 0, 1));
        assert!(slot_live(0) && !slot_live(1));
        assert!(m0.num_regions() == 1);
        drop(m0);
    }
    assert!(ghost() == (2, 2, 0, 0));
}
#[kani::proof]
#[kani::stub(alloc::slice::stable_sort, stable_sort_stub)]
fn history_insert_old_first() {
    history_insert_body::<true>()
}
#[kani::proof]
#[kani::stub(alloc::slice::stable_sort, stable_sort_stub)]
fn history_insert_new_first() {
    history_insert_body::<false>()
}

/// build -> remove_region -> (old map, new map, removed handle) dropped in every order (straight-line code per order:
/// no Option wrappers around the maps, which blow up CBMC's memory)
macro_rules! history_remove {
    ($name:ident, $d1:ident, $d2:ident, $d3:ident) => {
        #[kani::proof]
        #[kani::stub(alloc::vec::Vec::remove, vec_remove_stub)]
        fn $name() {
            two_regions!(r0, r1);
            let s1 = r1.len();
            let m0 = match GuestMemoryMmap::from_arc_regions(vec![Arc::new(r0), Arc::new(r1)]) {
                Ok(m) => m,
                Err(e) => {
                    leak(e);
                    assert!(false);
                    return;
                }
            };
            let (m1, h) = match m0.remove_region(GuestAddress(0x10000), s1) {
                Ok(x) => x,
                Err(e) => {
                    leak(e);
                    assert!(false);
                    return;
                }
            };
            assert!(ghost() == (2, 0, 0, 2));
            // reachability model: slot 0 (r0) <- m0, m1 ; slot 1 (r1) <- m0, h
            let (mut m0_alive, mut m1_alive, mut h_alive) = (true, true, true);
            macro_rules! kill {
                (m0) => {
                    drop(m0);
                    m0_alive = false;
                };
                (m1) => {
                    drop(m1);
                    m1_alive = false;
                };
                (h) => {
                    drop(h);
                    h_alive = false;
                };
            }
            macro_rules! check {
                () => {
                    assert!(slot_live(0) == (m0_alive || m1_alive));
                    assert!(slot_live(1) == (m0_alive || h_alive));
                    assert!(ghost().2 == 0);
                };
            }
            kill!($d1);
            check!();
            kill!($d2);
            check!();
            kill!($d3);
            check!();
            assert!(ghost() == (2, 2, 0, 0));
        }
    };
}
history_remove!(history_remove_m0_m1_h, m0, m1, h);
history_remove!(history_remove_m0_h_m1, m0, h, m1);
history_remove!(history_remove_m1_m0_h, m1, m0, h);
history_remove!(history_remove_m1_h_m0, m1, h, m0);
history_remove!(history_remove_h_m0_m1, h, m0, m1);
history_remove!(history_remove_h_m1_m0, h, m1, m0);
